#!/bin/bash
# usage: tools/try_mutant.sh <sed-expr> <file-relative-to-repo> <prop> [check args]   (applies, runs, reverts)
set -u
expr="$1"; file="$2"; prop="$3"; shift 3
cd /repo && sed -i "$expr" "$file" && git diff --stat | tail -1
cd /verif && ./check "$prop" --no-evidence "$@" 2>&1 | grep -v "^WARNING" | cut -c1-250 | tail -8
cd /repo && git checkout -- "$file"
