#!/bin/bash
# usage: tools/try_mutant.sh <sed-expr> <file-relative-to-repo> <prop> [check args]   (applies, runs, restores the file)
set -u
expr="$1"; file="$2"; prop="$3"; shift 3
cp /repo/"$file" /tmp/try_mutant_backup.$$ || exit 3
cd /repo && sed -i "$expr" "$file"
if cmp -s /repo/"$file" /tmp/try_mutant_backup.$$; then echo "MUTATION DID NOT APPLY"; rm -f /tmp/try_mutant_backup.$$; exit 3; fi
cd /verif && ./check "$prop" --no-evidence "$@" 2>&1 | grep -v "^WARNING" | cut -c1-250 | tail -8
cp /tmp/try_mutant_backup.$$ /repo/"$file"; rm -f /tmp/try_mutant_backup.$$
