DOUBLES = 'doubles treated as mathematical reals; opm2c translation; CBMC/z3 soundness; library stubs and axioms listed in evidence.trusted_base'
CHECKS = {
 'C02': {'text': 'the 12 static conversion tables of UnitSystem.cpp (46 measures x 4 systems): to/from rows mutually inverse, offsets, every base row equal to the physical size of the unit (SI/NIST definitions written independently in the spec), every composite row equal to its dimensional law over the base rows; every constant of Opm::unit/prefix equals its definition; to_si/from_si are the affine maps over those tables and are mutually inverse for every measure and every real value; the string-keyed dimension table set up by initMETRIC/FIELD/LAB/PVT_M agrees with the measure table. Exact over the rationals. NOT decided: keyword-JSON dimension annotations, parse() of composite dimension strings, whole-deck re-expression in another unit system.', 'note': 'spec data from external definitions; ' + DOUBLES},
 'C07': {'text': 'PARTIAL: size arithmetic of Eclipse arrays (sizeOnDiskBinary/Formatted, block size tables) equals the published layout for every n and type, proved over mathematical integers with a bit-precise overflow/conversion safety run. NOT decided: decimal text of REAL/DOUB.', 'note': 'spec constants written from the published layout; ' + DOUBLES},
 'C16': {'text': 'every operator and math function of Evaluation<double,N> (N=1..12 and the generic N=13), value and every derivative slot, equals the chain rule over the reals; binary operators verified against the compound-assignment contracts. NOT decided: IEEE rounding, the dynamically sized variant.', 'note': DOUBLES},
}
NA = 'no function-level contract within reach of CBMC expresses this whole-program / whole-history property (see DESIGN.md section 4)'
NOT_APPLICABLE = [
 {'property_id': 'C03', 'reason': NA},
 {'property_id': 'C04', 'reason': NA},
 {'property_id': 'C05', 'reason': NA + '; the file layer is claimed under C07/C08 and unit inversion under C02'},
] + [{'property_id': p, 'reason': 'not built yet (planned, see DESIGN.md section 3)'} for p in
     ['C01','C06','C08','C09','C10','C11','C12','C13','C14','C15','C17','C18','C19','C20']]
