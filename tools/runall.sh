#!/bin/bash
# runs every claimed check (quick tier) and prints the summary lines
cd /verif
for p in $(python3 -c "import json;print(' '.join(c['property_id'] for c in json.load(open('MANIFEST.json'))['checks']))") "$@"; do
  ./check $p --tier ${TIER:-quick} 2>&1 | grep -v "^WARNING" | grep -E "^(VIOLATION|UNDECIDED|KNOWN|C[0-9]+:)" | cut -c1-220
done
