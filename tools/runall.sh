#!/bin/bash
# regression run: every claimed check (quick tier), summary lines only; evidence files are NOT rewritten (commit evidence only
# from a clean ./check <id> run)
cd /verif
for p in $(python3 -c "import json;print(' '.join(c['property_id'] for c in json.load(open('MANIFEST.json'))['checks']))") "$@"; do
  ./check $p --no-evidence --tier ${TIER:-quick} 2>&1 | grep -v "^WARNING" | grep -E "^(VIOLATION|UNDECIDED|KNOWN|selftest|C[0-9]+:)" | cut -c1-220
done
