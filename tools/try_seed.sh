#!/bin/bash
# usage: tools/try_seed.sh <patch.diff> <prop> [check args]   applies the patch to /repo, runs the check, restores the patched files
set -u
patch="$(realpath "$1")"; prop="$2"; shift 2
files=$(git -C /repo apply --numstat "$patch" | awk '{print $3}')
for f in $files; do mkdir -p /tmp/try_seed_bak/$(dirname $f); cp /repo/$f /tmp/try_seed_bak/$f; done
git -C /repo apply "$patch" || { echo "PATCH DID NOT APPLY"; exit 3; }
cd /verif && ./check "$prop" --no-evidence "$@" 2>&1 | grep -v "^WARNING" | cut -c1-260 | tail -8
for f in $files; do cp /tmp/try_seed_bak/$f /repo/$f; done
rm -rf /tmp/try_seed_bak
