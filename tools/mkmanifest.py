#!/usr/bin/env python3
"""writes MANIFEST.json from tools/manifest_data.py (kept as data so it stays valid at all times)"""
import json, os, sys
sys.path.insert(0, os.path.dirname(os.path.abspath(__file__)))
from manifest_data import CHECKS, NOT_APPLICABLE
TECH = 'contract-based deductive verification: contracts spliced into C extracted mechanically from the clang AST of /repo each run; CBMC 6.11 (SMT z3 5.1 / SAT) discharges every obligation; a refuted obligation is replayed on the real code by a native driver; only for a unit the verifier cannot decide (extraction break, timeout) a bounded native search of the real code against the same contract stands in (labelled bounded, never counted as proof)'
m = {
    'version': 1,
    'setup_cmd': 'true',
    'hooks': {'guard': 'OPM_COMMON_VERIF',
              'enable': 'no hooks needed: checks read the clang AST of /repo working tree and link replay drivers against its unmodified sources',
              'baseline_off_cmd': 'ctest --test-dir /repo/_build -j8 --timeout 900',
              'source_commits': [], 'add_only': True},
    'engines': [{'name': 'check', 'path': 'check', 'serves_properties': sorted(CHECKS),
                 'kind_free_text': 'opm2c AST extractor + source-level contract instrumentation + CBMC'}],
    'checks': [], 'not_applicable': NOT_APPLICABLE,
    'notes': 'exit 2 from a check means undecided (extraction abort, timeout, solver error, vacuity guard) and is never a violation; see DESIGN.md',
}
for pid in sorted(CHECKS):
    c = CHECKS[pid]
    m['checks'].append({
        'property_id': pid, 'quick_cmd': './check %s --tier quick' % pid, 'thorough_cmd': './check %s --tier thorough' % pid,
        'evidence_file': 'evidence/%s.json' % pid, 'replay_cmd_template': './check %s --replay {path}' % pid,
        'engine': 'check',
        'level_claimed': {'category': 'proof', 'text': c['text'], 'design_ref': 'DESIGN.md section 3 ' + pid},
        'level_note': c['note'], 'technique': TECH})
json.dump(m, open(os.path.join(os.path.dirname(os.path.dirname(os.path.abspath(__file__))), 'MANIFEST.json'), 'w'), indent=1)
