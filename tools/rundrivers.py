#!/usr/bin/env python3
"""Regression aid: build every REPLAY_SEARCH driver against /repo's current tree and run it in search mode.  On a tree
where the properties hold every driver must exit 0 (a driver that fails here would turn an undecided proof into a false
alarm through the bounded native-search stand-in of ./check)."""
import sys, glob, os, subprocess
sys.path.insert(0, os.path.dirname(os.path.dirname(os.path.abspath(__file__))))
from vf import replay
import concurrent.futures as cf


def one(f):
    b = os.path.basename(f)[:-4]
    prop, unit = b.split('_', 1)
    exe, why = replay.build_driver(prop, unit)
    if not exe:
        return b, 'BUILD FAIL ' + why[-300:]
    p = subprocess.run([exe, '/dev/null', 'bounded_native_search', unit], stdout=subprocess.PIPE, stderr=subprocess.STDOUT, timeout=900)
    return b, '%d %s' % (p.returncode, p.stdout.decode(errors='replace').strip().split('\n')[-1][:160])


os.chdir(os.path.dirname(os.path.dirname(os.path.abspath(__file__))))
fs = [f for f in sorted(glob.glob('replay/drivers/*.cpp')) if 'REPLAY_SEARCH' in open(f).read()]
bad = 0
with cf.ThreadPoolExecutor(8) as ex:
    for b, r in ex.map(one, fs):
        print(b, r)
        bad += not r.startswith('0 ')
sys.exit(1 if bad else 0)
