#!/usr/bin/env python3
"""Re-run every stored seeded change against the current checks WITHOUT touching /repo: each seed is applied to an rsync
scratch copy of /repo's current working tree (VERIF_REPO), the check of its property is run with its own work
directory (VERIF_SUBDIR), and the outcome line is printed:  <seed> <exit code> <first VIOLATION / UNDECIDED line>."""
import glob, json, os, subprocess, sys, shutil
import concurrent.futures as cf
V = os.path.dirname(os.path.dirname(os.path.abspath(__file__)))


def one(meta):
    d = json.load(open(meta))
    sid, prop = d['id'], d['property']
    patch = os.path.join(os.path.dirname(meta), 'patch.diff')
    scratch = '/tmp/seedsweep_%s' % sid
    shutil.rmtree(scratch, ignore_errors=True)
    os.makedirs(scratch)
    try:
        subprocess.run(['rsync', '-a', '--exclude', '_build', '--exclude', '.git', '/repo/', scratch + '/repo/'], check=True)
        os.symlink('/repo/_build', scratch + '/repo/_build')
        p = subprocess.run(['patch', '-p1', '-s', '-i', patch], cwd=scratch + '/repo', stdout=subprocess.PIPE, stderr=subprocess.STDOUT)
        if p.returncode != 0:
            return sid, prop, 'PATCH DOES NOT APPLY', ''
        if not os.path.isdir(os.path.join(V, 'contracts', prop)):
            return sid, prop, 'not claimed', ''
        env = dict(os.environ, VERIF_REPO=scratch + '/repo', VERIF_SUBDIR='_sweep' + sid)
        q = subprocess.run([os.path.join(V, 'check'), prop, '--no-evidence', '--jobs', '6'], env=env, stdout=subprocess.PIPE, stderr=subprocess.STDOUT)
        out = q.stdout.decode(errors='replace').split('\n')
        viol = [l for l in out if l.startswith('VIOLATION')]
        und = [l for l in out if l.startswith('UNDECIDED')]
        return sid, prop, 'exit %d' % q.returncode, (viol or und or [''])[0][:230]
    finally:
        shutil.rmtree(scratch, ignore_errors=True)
        shutil.rmtree(os.path.join(V, '.work', prop + '_sweep' + sid), ignore_errors=True)
        shutil.rmtree(os.path.join(V, 'replay', 'out_sweep' + sid), ignore_errors=True)


metas = sorted(glob.glob(os.path.join(V, 'seeded', '*', 'meta.json')))
if len(sys.argv) > 1:
    metas = [m for m in metas if any(a in m for a in sys.argv[1:])]
with cf.ThreadPoolExecutor(3) as ex:
    for sid, prop, rc, line in ex.map(one, metas):
        print('%-18s %-4s %-22s %s' % (sid, prop, rc, line), flush=True)
