#!/usr/bin/env python3
"""debug aid: compact AST print.  astshow.py <tu> <filter> <qualname> [maxdepth]"""
import sys, os
sys.path.insert(0, os.path.dirname(os.path.dirname(os.path.abspath(__file__))))
from opm2c.astdb import AstDB
def show(n, d=0, maxd=99):
    if d > maxd: return
    t = n.get('type', {})
    extra = ' '.join(str(n[k]) for k in ('name','opcode','value','castKind','valueCategory') if k in n)
    rd = n.get('referencedDecl')
    if rd: extra += ' ->%s:%s' % (rd.get('kind'), rd.get('name'))
    if 'referencedMemberDecl' in n: extra += ' member'
    print('  '*d + n.get('kind','?'), extra, '|', t.get('qualType',''), ('=> '+t['desugaredQualType']) if 'desugaredQualType' in t else '')
    for k in n.get('inner', []):
        if k: show(k, d+1, maxd)
db = AstDB(sys.argv[1], sys.argv[2])
for f in db.functions(sys.argv[3], need_body=False):
    print('#', f.get('_qual'), f['loc'].get('_file'), f['loc'].get('_line'))
    show(f, 0, int(sys.argv[4]) if len(sys.argv) > 4 else 99)
