import json, sys, glob
import jsonschema
jsonschema.validate(json.load(open('/verif/MANIFEST.json')), json.load(open('/root/.vp/MANIFEST.schema.json')))
for f in glob.glob('/verif/evidence/*.json'):
    jsonschema.validate(json.load(open(f)), json.load(open('/root/.vp/EVIDENCE.schema.json')))
    print('ok', f)
print('manifest ok')
