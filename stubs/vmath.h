/* Transcendental functions.
 * Real modes: uninterpreted functions (functionally consistent by construction) plus the few
 * axioms listed here.  EVERY axiom below is part of the trusted base and is reported in the
 * evidence of every unit that includes this header.  Derivative facts are never axioms.
 *   AXIOM sqrt: x >= 0 ==> sqrt(x) >= 0 && sqrt(x)^2 == x
 *   AXIOM exp:  exp(x) > 0 ; log(exp(x)) == x ; exp(0) == 1
 *   AXIOM log:  x > 0 ==> exp(log(x)) == x ; log(1) == 0
 *   AXIOM pow:  pow(x,0) == 1 ; pow(x,1) == x ; pow(x,2) == x*x ; x >= 0 ==> pow(x,1/2)^2 == x, pow(x,1/4)^4 == x, both >= 0 ;
 *               x > 0 ==> pow(x,y) > 0
 *   AXIOM sincos: sin(x)^2 + cos(x)^2 == 1
 * Bit-precise / native modes: libm.
 */
#ifndef VERIF_VMATH_H
#define VERIF_VMATH_H
#ifdef VERIF_REAL
#define VM_UF1(n) real_t __CPROVER_uninterpreted_##n(real_t);
#define VM_UF2(n) real_t __CPROVER_uninterpreted_##n(real_t, real_t);
VM_UF1(sqrt) VM_UF1(exp) VM_UF1(log) VM_UF1(sin) VM_UF1(cos) VM_UF1(tan) VM_UF1(asin) VM_UF1(acos)
VM_UF1(atan) VM_UF1(sinh) VM_UF1(cosh) VM_UF1(tanh) VM_UF1(asinh) VM_UF1(acosh) VM_UF1(atanh)
VM_UF1(log10) VM_UF1(log2) VM_UF1(floor) VM_UF1(ceil) VM_UF1(cbrt) VM_UF1(round) VM_UF1(trunc)
VM_UF2(pow) VM_UF2(atan2) VM_UF2(fmod) VM_UF2(hypot)
static real_t v_sqrt(real_t x) { real_t r = __CPROVER_uninterpreted_sqrt(x); __CPROVER_assume(x < 0 || (r >= 0 && r * r == x)); return r; }
static real_t v_exp(real_t x) { real_t r = __CPROVER_uninterpreted_exp(x); __CPROVER_assume(r > 0 && __CPROVER_uninterpreted_log(r) == x && (x != 0 || r == 1)); return r; }
static real_t v_log(real_t x) { real_t r = __CPROVER_uninterpreted_log(x); __CPROVER_assume((x <= 0 || __CPROVER_uninterpreted_exp(r) == x) && (x != 1 || r == 0)); return r; }
static real_t v_pow(real_t x, real_t y) { real_t r = __CPROVER_uninterpreted_pow(x, y);
  __CPROVER_assume((y != 0 || r == 1) && (y != 1 || r == x) && (y != 2 || r == x * x) && (x <= 0 || r > 0));
  __CPROVER_assume(!(x >= 0 && 2 * y == 1) || (r >= 0 && r * r == x));
  __CPROVER_assume(!(x >= 0 && 4 * y == 1) || (r >= 0 && r * r * r * r == x));
  return r; }
static real_t v_sin(real_t x) { real_t r = __CPROVER_uninterpreted_sin(x), c = __CPROVER_uninterpreted_cos(x); __CPROVER_assume(r * r + c * c == 1); return r; }
static real_t v_cos(real_t x) { real_t r = __CPROVER_uninterpreted_cos(x), s = __CPROVER_uninterpreted_sin(x); __CPROVER_assume(r * r + s * s == 1); return r; }
#define VM_PLAIN1(n) static real_t v_##n(real_t x) { return __CPROVER_uninterpreted_##n(x); }
#define VM_PLAIN2(n) static real_t v_##n(real_t x, real_t y) { return __CPROVER_uninterpreted_##n(x, y); }
VM_PLAIN1(tan) VM_PLAIN1(asin) VM_PLAIN1(acos) VM_PLAIN1(atan) VM_PLAIN1(sinh) VM_PLAIN1(cosh) VM_PLAIN1(tanh)
VM_PLAIN1(asinh) VM_PLAIN1(acosh) VM_PLAIN1(atanh) VM_PLAIN1(log10) VM_PLAIN1(log2) VM_PLAIN1(floor) VM_PLAIN1(ceil)
VM_PLAIN1(cbrt) VM_PLAIN1(round) VM_PLAIN1(trunc)
VM_PLAIN2(atan2) VM_PLAIN2(fmod) VM_PLAIN2(hypot)
static _Bool v_isfinite(real_t x) { return 1; }   /* reals are finite: "doubles as reals" assumption */
static _Bool v_isnan(real_t x) { return 0; }
static _Bool v_isinf(real_t x) { return 0; }
#else
#include <math.h>
#define v_sqrt sqrt
#define v_exp exp
#define v_log log
#define v_pow pow
#define v_sin sin
#define v_cos cos
#define v_tan tan
#define v_asin asin
#define v_acos acos
#define v_atan atan
#define v_sinh sinh
#define v_cosh cosh
#define v_tanh tanh
#define v_asinh asinh
#define v_acosh acosh
#define v_atanh atanh
#define v_log10 log10
#define v_log2 log2
#define v_floor floor
#define v_ceil ceil
#define v_cbrt cbrt
#define v_round round
#define v_trunc trunc
#define v_atan2 atan2
#define v_fmod fmod
#define v_hypot hypot
#define v_isfinite isfinite
#define v_isnan isnan
#define v_isinf isinf
#endif
#endif
