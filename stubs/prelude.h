/* Prelude for the text emitted by opm2c.  The extracted text is identical in every mode; the
 * mode only selects the typedefs/macros below.
 *
 *   VERIF_MODE_SA   ints/chars bit-vectors, double -> __CPROVER_real, vectors -> SMT arrays
 *   VERIF_MODE_SAI  as SA but the C integer types are mathematical integers (size arithmetic)
 *   VERIF_MODE_BV   everything bit-precise (IEEE doubles); used for overflow/conversion safety runs
 *   VERIF_NONNEG_DIV  (with BV) every integer / and % gets the obligation "operands >= 0, divisor > 0"
 *                   -- the proviso under which the SAI result transfers to machine arithmetic
 */
#ifndef VERIF_PRELUDE_H
#define VERIF_PRELUDE_H

#if defined(VERIF_MODE_SAI)
typedef __CPROVER_integer c_int;
typedef __CPROVER_integer c_uint;
typedef __CPROVER_integer c_long;
typedef __CPROVER_integer c_ulong;
typedef __CPROVER_real real_t;
typedef __CPROVER_real realf_t;
#define VERIF_REAL 1
#elif defined(VERIF_MODE_SA)
typedef int c_int;
typedef unsigned int c_uint;
typedef long c_long;
typedef unsigned long c_ulong;
typedef __CPROVER_real real_t;
typedef __CPROVER_real realf_t;
#define VERIF_REAL 1
#else
typedef int c_int;
typedef unsigned int c_uint;
typedef long c_long;
typedef unsigned long c_ulong;
typedef double real_t;
typedef float realf_t;
#endif
typedef int c_enum;
typedef int c_tabid;   /* pointer to one of the constant tables of the TU (read-only, indexable) */
typedef int c_opaque;  /* object that is not modelled; never read */
typedef int c_strid;   /* identity of a string literal */
typedef unsigned long c_vecit;     /* an iterator of a modelled vector / string: the element position (the container is known statically) */
typedef unsigned long c_textptr;   /* a `const char*` / string_view iterator: position in the unit's ghost text buffer */

/* ---- exceptions: a throw sets the ghost flag and returns; callers propagate ---------------- */
static _Bool verif_thrown = 0;
#define VERIF_THROW(type) do { verif_thrown = 1; } while (0)
#define VERIF_OBL(c, name) __CPROVER_assert(verif_thrown || (c), name)
#define VERIF_ASSERT(c, name) __CPROVER_assert(verif_thrown || (c), name)
/* std::min_element / std::max_element over positions [b, e) of a modelled vector: the FIRST position holding an extreme
   element; e when the range is empty (library summary; the range must lie inside the vector) */
#define STD_MAX_ELEMENT(v, b, e) ({ c_vecit verif_b = (b), verif_e = (e), verif_p; \
    __CPROVER_assert(verif_thrown || (verif_b <= verif_e && verif_e <= (v).size), "std::max_element: the range lies inside the vector"); \
    __CPROVER_assume(verif_b <= verif_p && (verif_b < verif_e ? verif_p < verif_e : verif_p == verif_e)); \
    __CPROVER_assume(__CPROVER_forall { c_ulong verif_q; (verif_b <= verif_q && verif_q < verif_e) ==> ((v).data[verif_q] <= (v).data[verif_p] && (verif_q < verif_p ? (v).data[verif_q] < (v).data[verif_p] : 1)) }); \
    verif_p; })
#define STD_MIN_ELEMENT(v, b, e) ({ c_vecit verif_b = (b), verif_e = (e), verif_p; \
    __CPROVER_assert(verif_thrown || (verif_b <= verif_e && verif_e <= (v).size), "std::min_element: the range lies inside the vector"); \
    __CPROVER_assume(verif_b <= verif_p && (verif_b < verif_e ? verif_p < verif_e : verif_p == verif_e)); \
    __CPROVER_assume(__CPROVER_forall { c_ulong verif_q; (verif_b <= verif_q && verif_q < verif_e) ==> ((v).data[verif_q] >= (v).data[verif_p] && (verif_q < verif_p ? (v).data[verif_q] > (v).data[verif_p] : 1)) }); \
    verif_p; })
/* @abstractmul units: the product of two non-constant size_t values is an uninterpreted function */
#if !defined(VERIF_MODE_SAI)
unsigned long __CPROVER_uninterpreted_umul(unsigned long, unsigned long);
#define VERIF_UMUL(a, b) __CPROVER_uninterpreted_umul(a, b)
#endif
/* a ghost lemma: proved (obligation) where it stands, then available to the solver */
/* an instance of an axiom schema declared with @axiom in the unit (assumed; listed in the evidence) */
#define VERIF_INSTANTIATE(ax, term) __CPROVER_assume(ax(term))
#define VERIF_LEMMA(c, name) do { __CPROVER_assert(verif_thrown || (c), name); __CPROVER_assume(verif_thrown || (c)); } while (0)
#define VERIF_HAVOC(x) do { __typeof__(x) verif_h; (x) = verif_h; } while (0)

/* ---- literals, casts ------------------------------------------------------------------------ */
#ifdef VERIF_REAL
#define RQ(num, den, spelling) (((real_t)(num)) / ((real_t)(den)))
#define RQ_BIG(num, den, spelling) ((num) / (den))
#define REAL_CAST(ct, x) (x)
#else
#define RQ(num, den, spelling) (spelling)
#define RQ_BIG(num, den, spelling) (spelling)
#define REAL_CAST(ct, x) ((ct)(x))
#endif
#if defined(VERIF_MODE_SAI)
#define CAST(ct, src, x) (x)
#else
#define CAST(ct, src, x) ((ct)(x))
#endif
/* conversion of a NON-constant integer: CBMC's SMT back end has no bit-vector -> real conversion (constants fold).  Over the
   reals it is an uninterpreted function of the integer value (equal integers convert to equal reals) with its sign and the
   images of 0 and 1 */
#ifndef INT_TO_REAL_VAR
#if defined(INT_TO_REAL)    /* the unit brings its own conversion */
#define INT_TO_REAL_VAR(src, x) INT_TO_REAL(src, x)
#elif defined(VERIF_MODE_SA)
real_t __CPROVER_uninterpreted_int_to_real(__int128);
#define INT_TO_REAL_VAR(src, x) ({ __int128 verif_i2r = (__int128)(x); real_t verif_i2rr = __CPROVER_uninterpreted_int_to_real(verif_i2r); \
    __CPROVER_assume(verif_i2r == 0 ? verif_i2rr == 0 : (verif_i2r > 0 ? verif_i2rr >= 1 : verif_i2rr <= -1)); \
    __CPROVER_assume((verif_i2r != 1 || verif_i2rr == 1) && (verif_i2r != -1 || verif_i2rr == -1)); verif_i2rr; })
#else
#define INT_TO_REAL_VAR(src, x) ((real_t)(x))
#endif
#endif
#ifndef INT_TO_REAL
#define INT_TO_REAL(src, x) ((real_t)(x))
#endif
#ifndef REAL_TO_INT
/* float -> integer truncation has no model over the reals: reaching one is an obligation that fails (so the function
   stays undecidable-by-design only if the conversion is live; in dead code it costs nothing) */
#define REAL_TO_INT(ct, x) ({ (void)(x); __CPROVER_assert(verif_thrown, "floating-point to integer conversion is not reached (not modelled over the reals)"); ct verif_r2i; verif_r2i; })
#endif

/* NaN / infinity have no counterpart over the reals: unspecified (but fixed) values */
extern real_t verif_nan_value, verif_inf_value;
#define V_NAN verif_nan_value
#define V_INFINITY verif_inf_value

/* ---- arithmetic ----------------------------------------------------------------------------- */
#define RDIV(a, b) ((a) / (b))
#if defined(VERIF_MODE_SAI)
#define IDIV(a, b) ((a) / (b))
#define IMOD(a, b) ((a) - ((a) / (b)) * (b))
#elif defined(VERIF_NONNEG_DIV)
#define IDIV(a, b) ({ __typeof__((a) + (b)) verif_a = (a), verif_b = (b); \
    __CPROVER_assert(verif_thrown || (verif_a >= 0 && verif_b > 0), "division: operands non-negative, divisor positive"); verif_a / verif_b; })
#define IMOD(a, b) ({ __typeof__((a) + (b)) verif_a = (a), verif_b = (b); \
    __CPROVER_assert(verif_thrown || (verif_a >= 0 && verif_b > 0), "modulo: operands non-negative, divisor positive"); verif_a % verif_b; })
#else
#define IDIV(a, b) ((a) / (b))
#define IMOD(a, b) ((a) % (b))
#endif
#define V_ABS(T, x) ({ __typeof__(x) verif_x = (x); verif_x < 0 ? -verif_x : verif_x; })
#define V_MIN(T, a, b) ({ __typeof__(a) verif_a = (a); __typeof__(b) verif_b = (b); verif_b < verif_a ? verif_b : verif_a; })
#define V_MAX(T, a, b) ({ __typeof__(a) verif_a = (a); __typeof__(b) verif_b = (b); verif_a < verif_b ? verif_b : verif_a; })

/* <cctype> in the "C" locale */
#define V_ISDIGIT(c) ((c) >= '0' && (c) <= '9')
#define V_ISSPACE(c) ((c) == ' ' || ((c) >= 9 && (c) <= 13))
#define V_ISALPHA(c) (((c) >= 'a' && (c) <= 'z') || ((c) >= 'A' && (c) <= 'Z'))
#define V_ISALNUM(c) (V_ISALPHA(c) || V_ISDIGIT(c))
#define V_TOUPPER(c) (((c) >= 'a' && (c) <= 'z') ? (c) - 32 : (c))
#define V_TOLOWER(c) (((c) >= 'A' && (c) <= 'Z') ? (c) + 32 : (c))

/* ---- std::vector / std::string as unbounded SMT arrays ---------------------------------------- */
#if defined(VERIF_MODE_SA) || defined(VERIF_MODE_SAI)
#define VERIF_INF __CPROVER_constant_infinity_uint
#else
#ifndef VERIF_VEC_CAP
#define VERIF_VEC_CAP 16
#endif
#define VERIF_INF VERIF_VEC_CAP
#endif
#define DECL_VEC(T, name) struct name { T data[VERIF_INF]; unsigned long size; }
#define VERIF_IDX(i, n, what) ({ c_ulong verif_i = (i); __CPROVER_assert(verif_thrown || verif_i < (n), what); verif_i; })
#define ARR_IDX(i, n) VERIF_IDX(i, n, "std::array index in bounds")
#define VEC_AT(v, i) ((v).data[VERIF_IDX(i, (v).size, "vector index in bounds")])
/* .at(): std::out_of_range instead of UB; the exception flag is raised inside the expression and the translator
   leaves the function right after the statement (obligations in between are guarded by verif_thrown) */
#define VEC_AT_CHECKED(v, i) ((v).data[({ c_ulong verif_i = (i); if (!(verif_i < (v).size)) verif_thrown = 1; verif_i; })])
#define VEC_SIZE(v) ((c_ulong)(v).size)
#define VEC_INIT_EMPTY(v) ((v).size = 0)
#define VEC_CLEAR(v) ((v).size = 0)
#define VEC_PUSH(v, x) do { (v).data[(v).size] = (x); (v).size++; } while (0)
/* stream.read(v.data(), n): bytes [0, n) of v become arbitrary (file content, or indeterminate after a short read) */
#define SRC_READ_VEC(v, n) do { __CPROVER_assert(verif_thrown || (unsigned long)(n) <= (v).size, "read: count within the destination buffer"); \
    __typeof__(v) verif_h; c_ulong verif_n = (n); __CPROVER_assume(verif_h.size == (v).size); \
    __CPROVER_assume(__CPROVER_forall { c_ulong verif_q; (verif_q >= verif_n) ==> verif_h.data[verif_q] == (v).data[verif_q] }); (v) = verif_h; } while (0)
/* stream.read(&x, n) of a scalar: x becomes arbitrary (file content, or indeterminate after a short read); a unit may
   #undef and refine this with a ghost source that records whether a read came up short */
#define SRC_READ_SCALAR(x, n) do { __typeof__(x) verif_h; (void)(n); (x) = verif_h; } while (0)
#define OPQ_ELEM(c, i) ((void)(i), (c_opaque)0)
#define OPQ_ID(x) ((const void *)(unsigned long)(x))
/* v.data() / s.c_str(): only meaningful as the argument of a modelled library call */
#define VEC_DATA(v) (v)
/* strtof & co. read up to the terminating NUL: it must lie inside the buffer */
#define V_STRTOX(fn, v) ({ __CPROVER_assert(verif_thrown || __CPROVER_exists { c_ulong verif_q; verif_q < (v).size && (v).data[verif_q] == 0 }, #fn ": argument is NUL-terminated inside its buffer"); real_t verif_r; verif_r; })
#define OPT_VAL(o) ((o).val)
#define UPTR_VAL(p) (p)
#define OPT_SET(o, v) ((o).val = (v), (o).has = 1)
#define OPT_VALUE_CHECKED(o) (*({ __CPROVER_assert(verif_thrown || (o).has, "optional has value"); &(o).val; }))
#define ADDR_TMP(ct, x) (&((ct[1]){ x })[0])
#define ARR_ZERO(ct) ((ct){ { 0 } })

/* ---- opaque pure functions: uninterpreted, functionally consistent -------------------------- */
#define DECL_OPAQUE0(rt, name) rt __CPROVER_uninterpreted_##name(void); static rt name(void) { return __CPROVER_uninterpreted_##name(); }
#define DECL_OPAQUE1(rt, name, a) rt __CPROVER_uninterpreted_##name(a); static rt name(a x0) { return __CPROVER_uninterpreted_##name(x0); }
#define DECL_OPAQUE2(rt, name, a, b) rt __CPROVER_uninterpreted_##name(a, b); static rt name(a x0, b x1) { return __CPROVER_uninterpreted_##name(x0, x1); }
#define DECL_OPAQUE3(rt, name, a, b, c) rt __CPROVER_uninterpreted_##name(a, b, c); static rt name(a x0, b x1, c x2) { return __CPROVER_uninterpreted_##name(x0, x1, x2); }
#define DECL_OPAQUE4(rt, name, a, b, c, d) rt __CPROVER_uninterpreted_##name(a, b, c, d); static rt name(a x0, b x1, c x2, d x3) { return __CPROVER_uninterpreted_##name(x0, x1, x2, x3); }

#define SIZEOF_int 4
#define SIZEOF_unsigned_int 4
#define SIZEOF_float 4
#define SIZEOF_double 8
#define SIZEOF_long 8
#define SIZEOF_unsigned_long 8
#define SIZEOF_char 1
#define SIZEOF_bool 1

#endif
