// REPLAY_SOURCES: opm/input/eclipse/Schedule/Action/ActionResult.cpp
// Replays a refuted set-algebra obligation through the public Action::Result API.  The verifier's counterexample
// says, for each operand, its truth value, whether it carries a well set and whether the ghost well "E" is in it.
// "Set present" is not directly observable; it is observed through a following AND with the well set {E}:
// a present set is intersected (E survives iff it is a member), an absent one leaves {E} unchanged.
#include "replay.hpp"
#include <opm/input/eclipse/Schedule/Action/ActionResult.hpp>
#include <sstream>
using Opm::Action::Result;
static Result make(const Replay& r, const std::string& p) {
    Result x(r.integer(p + ".result_") != 0);
    if (r.integer(p + ".matches_.pImpl_.wells_.has") != 0)
        x.wells(r.integer(p + ".matches_.pImpl_.wells_.val.in") != 0 ? std::vector<std::string>{"E", "OTHER"} : std::vector<std::string>{});
    return x;
}
int main(int argc, char** argv)
{
    Replay r(argc, argv);
    const bool ar = r.integer("verif_in_self.result_"), ah = r.integer("verif_in_self.matches_.pImpl_.wells_.has"), ai = r.integer("verif_in_self.matches_.pImpl_.wells_.val.in");
    const bool br = r.integer("verif_in_rhs.result_"), bh = r.integer("verif_in_rhs.matches_.pImpl_.wells_.has"), bi = r.integer("verif_in_rhs.matches_.pImpl_.wells_.val.in");
    Result a = make(r, "verif_in_self"); const Result b = make(r, "verif_in_rhs");
    const bool uni = r.is("makeSetUnion/");
    if (uni) a.makeSetUnion(b); else a.makeSetIntersection(b);
    // property: only TRUE operands that carry a set contribute one
    const bool ea = ar && ah, eb = br && bh;
    const bool res = uni ? (ar || br) : (ar && br);
    const bool has = res && (ea || eb);
    const bool in = uni ? ((ea && ai) || (eb && bi)) : ((!ea || ai) && (!eb || bi));
    std::ostringstream w;
    w << "(" << (ar ? "true" : "false") << (ah ? (ai ? ",{E..}" : ",{}") : ",no set") << ") " << (uni ? "OR" : "AND") << " ("
      << (br ? "true" : "false") << (bh ? (bi ? ",{E..}" : ",{}") : ",no set") << ")";
    if (r.is("truth_value")) return r.verdict(a.conditionSatisfied() == res, w.str());
    if (!res) return r.verdict(!a.matches().hasWell("E"), w.str() + " is false and must match nothing");
    Result probe(true); probe.wells({"E"});
    Result c = a; c.makeSetIntersection(probe);
    const bool expectE = has ? in : true;
    w << ", then AND (true,{E}): E " << (c.matches().hasWell("E") ? "matches" : "does not match") << ", the property requires that it " << (expectE ? "matches" : "does not match");
    return r.verdict(c.matches().hasWell("E") == expectE, w.str());
}
