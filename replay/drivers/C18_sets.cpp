// REPLAY_SOURCES: opm/input/eclipse/Schedule/Action/ActionResult.cpp
// REPLAY_SEARCH (without a counterexample: every pair of operands over truth value x {no set, {}, {E}, {F}, {E,F}} is combined
// with AND and with OR through the public API and the membership of E and F is compared with the contracts
// and_is_intersection / or_is_union_of_contributed_sets / false_matches_nothing)
// Replays a refuted set-algebra obligation through the public Action::Result API.  The verifier's counterexample
// says, for each operand, its truth value, whether it carries a well set and whether the ghost well "E" is in it.
// "Set present" is not directly observable; it is observed through a following AND with the well set {E}:
// a present set is intersected (E survives iff it is a member), an absent one leaves {E} unchanged.
#include "replay.hpp"
#include <opm/input/eclipse/Schedule/Action/ActionResult.hpp>
#include <sstream>
#include <string>
#include <vector>
using Opm::Action::Result;
static Result make(const Replay& r, const std::string& p) {
    Result x(r.integer(p + ".result_") != 0);
    if (r.integer(p + ".matches_.pImpl_.wells_.has") != 0)
        x.wells(r.integer(p + ".matches_.pImpl_.wells_.val.in") != 0 ? std::vector<std::string>{"E", "OTHER"} : std::vector<std::string>{});
    return x;
}
static int nativeSearch(const Replay& r)
{
    const std::vector<std::vector<std::string>> sets = { {}, {"E"}, {"F"}, {"E", "F"} };     // code >> 1: 0 = no set, 1 = {}, 2 = {E}, ...
    auto mk = [&](int code) { Result x((code & 1) != 0); const int s = code >> 1; if (s > 0) x.wells(sets[s - 1]); return x; };   // s == 0: no set
    auto in = [&](int code, const std::string& w) { const int s = code >> 1; if (s == 0) return false; for (const auto& x : sets[s - 1]) if (x == w) return true; return false; };
    auto show = [&](int code) { std::string t = (code & 1) ? "(true," : "(false,"; const int s = code >> 1; if (s == 0) return t + "no set)"; t += "{"; for (const auto& x : sets[s - 1]) t += x; return t + "})"; };
    for (int a = 0; a < 10; ++a) for (int b = 0; b < 10; ++b) for (int uni = 0; uni <= 1; ++uni) {
        // precondition of the contracts (how comparisons build Results): a FALSE operand matches no well
        if ((!(a & 1) && (a >> 1) > 1) || (!(b & 1) && (b >> 1) > 1)) continue;
        Result x = mk(a); const Result y = mk(b);
        if (uni) x.makeSetUnion(y); else x.makeSetIntersection(y);
        const bool ar = a & 1, br = b & 1, ea = ar && (a >> 1) > 0, eb = br && (b >> 1) > 0;
        const bool res = uni ? (ar || br) : (ar && br);
        std::string what = show(a) + (uni ? " OR " : " AND ") + show(b);
        if (x.conditionSatisfied() != res) return r.verdict(false, what + ": wrong truth value");
        for (const std::string w : {"E", "F"}) {
            const bool expect = res && (uni ? ((ea && in(a, w)) || (eb && in(b, w))) : ((ea || eb) && (!ea || in(a, w)) && (!eb || in(b, w))));
            if (x.matches().hasWell(w) != expect)
                return r.verdict(false, what + ": well " + w + (x.matches().hasWell(w) ? " matches" : " does not match") + ", the contract requires that it " + (expect ? "matches" : "does not match"));
        }
    }
    return r.verdict(true, "AND / OR of every pair of operands gives the contracted matching wells (bounded native search)");
}
int main(int argc, char** argv)
{
    Replay r(argc, argv);
    if (r.is("bounded_native_search")) return nativeSearch(r);
    const bool ar = r.integer("verif_in_self.result_"), ah = r.integer("verif_in_self.matches_.pImpl_.wells_.has"), ai = r.integer("verif_in_self.matches_.pImpl_.wells_.val.in");
    const bool br = r.integer("verif_in_rhs.result_"), bh = r.integer("verif_in_rhs.matches_.pImpl_.wells_.has"), bi = r.integer("verif_in_rhs.matches_.pImpl_.wells_.val.in");
    Result a = make(r, "verif_in_self"); const Result b = make(r, "verif_in_rhs");
    const bool uni = r.is("makeSetUnion/");
    if (uni) a.makeSetUnion(b); else a.makeSetIntersection(b);
    // property: only TRUE operands that carry a set contribute one
    const bool ea = ar && ah, eb = br && bh;
    const bool res = uni ? (ar || br) : (ar && br);
    const bool has = res && (ea || eb);
    const bool in = uni ? ((ea && ai) || (eb && bi)) : ((!ea || ai) && (!eb || bi));
    std::ostringstream w;
    w << "(" << (ar ? "true" : "false") << (ah ? (ai ? ",{E..}" : ",{}") : ",no set") << ") " << (uni ? "OR" : "AND") << " ("
      << (br ? "true" : "false") << (bh ? (bi ? ",{E..}" : ",{}") : ",no set") << ")";
    if (r.is("truth_value")) return r.verdict(a.conditionSatisfied() == res, w.str());
    if (!res) return r.verdict(!a.matches().hasWell("E"), w.str() + " is false and must match nothing");
    Result probe(true); probe.wells({"E"});
    Result c = a; c.makeSetIntersection(probe);
    const bool expectE = has ? in : true;
    w << ", then AND (true,{E}): E " << (c.matches().hasWell("E") ? "matches" : "does not match") << ", the property requires that it " << (expectE ? "matches" : "does not match");
    return r.verdict(c.matches().hasWell("E") == expectE, w.str());
}
