// REPLAY_SOURCES: opm/input/eclipse/Parser/raw/StarToken.cpp
// REPLAY_SEARCH
// Native replay for C01/startoken: every token of length <= 6 over { 1, 2, *, a, . } is given to the real isStarToken
// and compared with the rule of the statement: a star token is digits* '*' rest; count = the digits, value = rest.
#include "replay.hpp"
#include <opm/input/eclipse/Parser/raw/StarToken.hpp>
#include <sstream>
#include <vector>
int main(int argc, char** argv)
{
    Replay r(argc, argv);
    const std::string alpha = "12*a.";
    std::vector<std::string> level{ "" };
    std::ostringstream w;
    for (int len = 0; len <= 6; ++len) {
        for (const auto& t : level) {
            std::size_t p = 0; while (p < t.size() && t[p] >= '0' && t[p] <= '9') ++p;
            const bool expect = p < t.size() && t[p] == '*';
            std::string c = "<c>", v = "<v>";
            const bool got = Opm::isStarToken(t, c, v);
            if (got != expect || (expect && (c != t.substr(0, p) || v != t.substr(p + 1))) || (!expect && (c != "<c>" || v != "<v>"))) {
                w << "isStarToken(\"" << t << "\") = " << got << " count \"" << c << "\" value \"" << v << "\"; the rule gives " << expect;
                if (expect) w << " count \"" << t.substr(0, p) << "\" value \"" << t.substr(p + 1) << "\"";
                return r.verdict(false, w.str());
            }
        }
        std::vector<std::string> next;
        if (len < 6) for (const auto& s : level) for (char ch : alpha) next.push_back(s + ch);
        level.swap(next);
    }
    return r.verdict(true, "isStarToken agrees with the rule on every token of length <= 6 over the test alphabet (bounded native search)");
}
