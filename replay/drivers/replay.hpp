// Minimal support for native replay drivers: reads "key value" lines written by vf/replay.py from the
// verifier's counterexample and offers lookups.  Convention: exit 1 = the real code reproduces the failure
// of the named obligation on these inputs; exit 0 = it does not; exit 3 = inputs unusable.
#pragma once
#include <algorithm>
#include <cmath>
#include <cstdio>
#include <cstdlib>
#include <fstream>
#include <iostream>
#include <map>
#include <string>
struct Replay {
    std::map<std::string, std::string> kv;
    std::string obligation;
    Replay(int argc, char** argv) {
        if (argc < 3) { std::cerr << "usage: driver <kv-file> <obligation>\n"; std::exit(3); }
        std::ifstream f(argv[1]); std::string k, v;
        while (f >> k >> v) kv[k] = v;
        obligation = argv[2];
    }
    bool has(const std::string& k) const { return kv.count(k) > 0; }
    double num(const std::string& k) const {
        auto it = kv.find(k);
        if (it == kv.end()) { std::cerr << "replay: input '" << k << "' missing from the counterexample\n"; std::exit(3); }
        const std::string& s = it->second;
        auto sl = s.find('/');
        if (sl != std::string::npos) return std::stod(s.substr(0, sl)) / std::stod(s.substr(sl + 1));
        if (s == "TRUE") return 1; if (s == "FALSE") return 0;
        return std::stod(s);
    }
    double num(const std::string& k, double dflt) const { return has(k) ? num(k) : dflt; }
    long integer(const std::string& k) const { return static_cast<long>(std::llround(num(k))); }
    bool is(const std::string& frag) const { return obligation.find(frag) != std::string::npos; }
    // relative comparison for real-valued postconditions (counterexamples are rationals rounded to doubles)
    static bool close(double a, double b, double scale = 1.0) {
        return std::fabs(a - b) <= 1e-9 * std::max({std::fabs(a), std::fabs(b), std::fabs(scale), 1e-300});
    }
    int verdict(bool holds, const std::string& what) const {
        std::cout << "replay on real code: obligation '" << obligation << "' " << (holds ? "HOLDS" : "FAILS") << " : " << what << "\n";
        return holds ? 0 : 1;
    }
};
