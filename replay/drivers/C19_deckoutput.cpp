// REPLAY_SOURCES: opm/input/eclipse/Deck/DeckOutput.cpp
// REPLAY_SEARCH
// Native replay for C19/deckoutput: every sequence of up to 7 operations from { write(int), stash_default } inside one
// record is sent through the real DeckOutput (with and without line splitting) and the text is tokenised: pending
// defaults must appear as exactly one "k*" token, k = the number stashed, immediately before the next explicit value;
// trailing defaults are dropped at end_record; nothing else is emitted.  Exit 1 = an operation sequence on which the
// text differs.  Doubles of ordinary and extreme magnitude must re-read to the value at the printed precision.
#include "replay.hpp"
#include <opm/input/eclipse/Deck/DeckOutput.hpp>
#include <sstream>
#include <vector>
int main(int argc, char** argv)
{
    Replay r(argc, argv);
    std::ostringstream w;
    for (int split = 0; split <= 1; ++split)
        for (int len = 0; len <= 7; ++len)
            for (unsigned code = 0; code < (1u << len); ++code) {
                std::ostringstream os;
                std::vector<std::string> expect;
                {
                    Opm::DeckOutput out(os, 10);
                    out.start_keyword("KW", split != 0);
                    out.start_record();
                    int pending = 0, v = 100;
                    for (int i = 0; i < len; ++i) {
                        if ((code >> i) & 1u) { out.stash_default(); ++pending; }
                        else {
                            if (pending) { expect.push_back(std::to_string(pending) + "*"); pending = 0; }
                            out.write(v); expect.push_back(std::to_string(v)); ++v;
                        }
                    }
                    out.end_record();
                    out.end_keyword(false);
                }
                expect.push_back("/");
                std::istringstream is(os.str()); std::string tok; std::vector<std::string> got;
                is >> tok;                                   // keyword name
                while (is >> tok) got.push_back(tok);
                if (tok.empty() || got != expect) {
                    w << "record with operations ";
                    for (int i = 0; i < len; ++i) w << (((code >> i) & 1u) ? "D" : "V");
                    w << (split ? " (split lines)" : "") << " is written as \"";
                    for (const auto& g : got) w << g << ' ';
                    w << "\", expected \"";
                    for (const auto& e : expect) w << e << ' ';
                    w << "\"";
                    return r.verdict(false, w.str());
                }
            }
    // floating-point values: the token written for a double re-reads (strtod) to the value at the stream precision (10
    // significant digits), for ordinary and extreme magnitudes and both signs
    {
        const double vals[] = {0.0, 1.0, -1.0, 0.1, 1.0/3.0, -1.23456789012e-05, 123456789.123, 9.87654321098e+150, -9.87654321098e-150,
                               1.5e308, -1.5e308, 2.2250738585072014e-308, -2.2250738585072014e-308,
                               6.02214076e23, -1.602176634e-19, 273.15, 1e10, 1e-10, 123456.7891, -99999.99999};
        for (double v : vals) {
            std::ostringstream os;
            {
                Opm::DeckOutput out(os, 10);
                out.start_keyword("KW", false);
                out.start_record();
                out.write(v);
                out.end_record();
                out.end_keyword(false);
            }
            std::istringstream is(os.str()); std::string kw, tok;
            is >> kw >> tok;
            char* e = nullptr;
            const double back = std::strtod(tok.c_str(), &e);
            const bool ok = e && *e == '\0' && std::fabs(back - v) <= 1e-9 * std::fabs(v);
            if (!ok) {
                char b[64]; std::snprintf(b, sizeof b, "%.17g", v);
                w << "the double " << b << " is written as \"" << tok << "\", which does not re-read to the value at 10 significant digits";
                return r.verdict(false, w.str());
            }
        }
    }
    // trailing defaults are dropped with their record: they must not surface in what is written next without a
    // start_record (DeckKeyword::write_TITLE writes the title words directly after start_keyword)
    for (int pending = 1; pending <= 4; ++pending) {
        std::ostringstream os;
        {
            Opm::DeckOutput out(os, 10);
            out.start_keyword("EQLDIMS", false);
            out.start_record();
            out.write(2);
            for (int i = 0; i < pending; ++i) out.stash_default();
            out.end_record();
            out.end_keyword(false);
            out.start_keyword("TITLE", false);
            out.write_string("  ");
            out.write(std::string("My"));
            out.endl();
        }
        if (os.str().find('*') != std::string::npos) {
            w << "a record ending with " << pending << " defaulted item(s), followed by a TITLE: the dropped defaults surface as \"" << pending << "*\" in the title line";
            return r.verdict(false, w.str());
        }
    }
    // string values are written verbatim between quotes (trailing / leading / interior blanks, wildcards, slashes)
    for (const std::string v : {"PROD1", "PROD1   ", " ", "  LEFT", "A B", "P*", "dir/file.inc", ""}) {
        std::ostringstream os;
        {
            Opm::DeckOutput out(os, 10);
            out.start_keyword("KW", false);
            out.start_record();
            out.write(v);
            out.end_record();
            out.end_keyword(false);
        }
        if (os.str().find("'" + v + "'") == std::string::npos) {
            w << "the string \"" << v << "\" is not written verbatim between quotes: " << os.str().substr(0, 60);
            return r.verdict(false, w.str());
        }
    }
    return r.verdict(true, "default run-length encoding matches on every operation sequence of length <= 7 (bounded native search)");
}
