// REPLAY_SOURCES: opm/input/eclipse/Deck/DeckOutput.cpp
// REPLAY_SEARCH
// Native replay for C19/deckoutput: every sequence of up to 7 operations from { write(int), stash_default } inside one
// record is sent through the real DeckOutput (with and without line splitting) and the text is tokenised: pending
// defaults must appear as exactly one "k*" token, k = the number stashed, immediately before the next explicit value;
// trailing defaults are dropped at end_record; nothing else is emitted.  Exit 1 = an operation sequence on which the
// text differs.
#include "replay.hpp"
#include <opm/input/eclipse/Deck/DeckOutput.hpp>
#include <sstream>
#include <vector>
int main(int argc, char** argv)
{
    Replay r(argc, argv);
    std::ostringstream w;
    for (int split = 0; split <= 1; ++split)
        for (int len = 0; len <= 7; ++len)
            for (unsigned code = 0; code < (1u << len); ++code) {
                std::ostringstream os;
                std::vector<std::string> expect;
                {
                    Opm::DeckOutput out(os, 10);
                    out.start_keyword("KW", split != 0);
                    out.start_record();
                    int pending = 0, v = 100;
                    for (int i = 0; i < len; ++i) {
                        if ((code >> i) & 1u) { out.stash_default(); ++pending; }
                        else {
                            if (pending) { expect.push_back(std::to_string(pending) + "*"); pending = 0; }
                            out.write(v); expect.push_back(std::to_string(v)); ++v;
                        }
                    }
                    out.end_record();
                    out.end_keyword(false);
                }
                expect.push_back("/");
                std::istringstream is(os.str()); std::string tok; std::vector<std::string> got;
                is >> tok;                                   // keyword name
                while (is >> tok) got.push_back(tok);
                if (tok.empty() || got != expect) {
                    w << "record with operations ";
                    for (int i = 0; i < len; ++i) w << (((code >> i) & 1u) ? "D" : "V");
                    w << (split ? " (split lines)" : "") << " is written as \"";
                    for (const auto& g : got) w << g << ' ';
                    w << "\", expected \"";
                    for (const auto& e : expect) w << e << ' ';
                    w << "\"";
                    return r.verdict(false, w.str());
                }
            }
    return r.verdict(true, "default run-length encoding matches on every operation sequence of length <= 7 (bounded native search)");
}
