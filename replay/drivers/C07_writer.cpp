// REPLAY_SOURCES: opm/io/eclipse/EclOutput.cpp
// REPLAY_SEARCH
// Native replay for C07/writer_*: the counterexample of a refuted writer obligation lives in ghost sink state, so the
// driver searches the real writer instead: INTE / REAL / DOUB / LOGI arrays of lengths around the 1000-element block boundary
// are written with the real EclOutput and the bytes on disk are decoded independently against the published layout
// (24-byte header; blocks of at most 1000 elements framed by equal big-endian length words; elements big-endian, in
// order; total size == sizeOnDiskBinary + header).  Exit 1 = a length on which the real writer breaks the layout.
#include "replay.hpp"
#include <opm/io/eclipse/EclOutput.hpp>
#include <opm/io/eclipse/EclUtil.hpp>
#include <cstdint>
#include <cstring>
#include <filesystem>
#include <sstream>
#include <unistd.h>
#include <vector>
static std::uint32_t be32(const unsigned char* p) { return (std::uint32_t(p[0]) << 24) | (std::uint32_t(p[1]) << 16) | (std::uint32_t(p[2]) << 8) | p[3]; }
template <class T> static T decode(const unsigned char* p) { unsigned char b[sizeof(T)]; for (std::size_t i = 0; i < sizeof(T); ++i) b[i] = p[sizeof(T) - 1 - i]; T v; std::memcpy(&v, b, sizeof(T)); return v; }
template <class T>
static bool one(const std::string& file, std::size_t n, Opm::EclIO::eclArrType ty, std::ostringstream& w)
{
    std::vector<T> data(n);
    for (std::size_t i = 0; i < n; ++i) data[i] = static_cast<T>(static_cast<long>(i * 7919u % 100003u) - 50000);
    { Opm::EclIO::EclOutput out(file, false); out.write("DATA", data); }
    std::ifstream is(file, std::ios::binary); std::vector<unsigned char> b((std::istreambuf_iterator<char>(is)), {});
    const std::size_t expect = 24 + Opm::EclIO::sizeOnDiskBinary(n, ty, sizeof(T));
    if (b.size() != expect) { w << "n=" << n << ": file has " << b.size() << " bytes, size arithmetic says " << expect; return false; }
    std::size_t p = 24, k = 0;
    while (k < n) {
        const std::size_t blk = std::min<std::size_t>(1000, n - k);
        if (p + 8 + blk * sizeof(T) > b.size()) { w << "n=" << n << ": block at element " << k << " runs past the end of the file"; return false; }
        const std::uint32_t head = be32(&b[p]), tail = be32(&b[p + 4 + blk * sizeof(T)]);
        if (head != blk * sizeof(T) || tail != head) { w << "n=" << n << ": block at element " << k << " has head " << head << ", tail " << tail << ", expected " << blk * sizeof(T); return false; }
        for (std::size_t i = 0; i < blk; ++i)
            if (decode<T>(&b[p + 4 + i * sizeof(T)]) != data[k + i]) { w << "n=" << n << ": element " << k + i << " on disk differs from the input"; return false; }
        p += 8 + blk * sizeof(T); k += blk;
    }
    if (p != b.size()) { w << "n=" << n << ": " << b.size() - p << " stray bytes after the last block"; return false; }
    return true;
}
// LOGI: every element is one 4-byte word, 0xffffffff (ECL flavour) / 0x01000000 (IX flavour) for true, 0 for false
static bool logi(const std::string& file, std::size_t n, int pattern, std::ostringstream& w)
{
    std::vector<bool> data(n);
    for (std::size_t i = 0; i < n; ++i)
        data[i] = pattern == 0 ? (i % 1000 == 0 && i < 1000) : pattern == 1 ? (i * 2654435761u % 7u < 3u) : pattern == 2 ? (i < 1000) : (i % 2 == 0);
    { Opm::EclIO::EclOutput out(file, false); out.write("FLAGS", data); }
    std::ifstream is(file, std::ios::binary); std::vector<unsigned char> b((std::istreambuf_iterator<char>(is)), {});
    const std::size_t expect = 24 + Opm::EclIO::sizeOnDiskBinary(n, Opm::EclIO::LOGI, 4);
    if (b.size() != expect) { w << "LOGI n=" << n << ": file has " << b.size() << " bytes, size arithmetic says " << expect; return false; }
    std::size_t p = 24, k = 0;
    while (k < n) {
        const std::size_t blk = std::min<std::size_t>(1000, n - k);
        const std::uint32_t head = be32(&b[p]), tail = be32(&b[p + 4 + blk * 4]);
        if (head != blk * 4 || tail != head) { w << "LOGI n=" << n << ": block at element " << k << " has head " << head << ", tail " << tail; return false; }
        for (std::size_t i = 0; i < blk; ++i) {
            const std::uint32_t word = be32(&b[p + 4 + i * 4]);
            if (word != (data[k + i] ? 0xffffffffu : 0u)) {
                w << "LOGI n=" << n << " pattern " << pattern << ": element " << k + i << " is " << (data[k + i] ? "true" : "false") << " but the word on disk is 0x" << std::hex << word;
                return false;
            }
        }
        p += 8 + blk * 4; k += blk;
    }
    return true;
}
int main(int argc, char** argv)
{
    Replay r(argc, argv);
    namespace fs = std::filesystem;
    const auto dir = fs::temp_directory_path() / ("verif_c07w_" + std::to_string(::getpid()));
    fs::create_directories(dir);
    const std::string f = (dir / "A.BIN").string();
    std::ostringstream w; bool ok = true;
    const std::string unit = argc > 3 ? argv[3] : "writer_int";
    for (std::size_t n : {0u, 1u, 2u, 999u, 1000u, 1001u, 1999u, 2000u, 2001u, 2999u, 3000u, 3001u, 4500u}) {
        if (unit == "writer_bool") { for (int pat = 0; ok && pat < 4; ++pat) ok = logi(f, n, pat, w); }
        else if (unit == "writer_float") ok = one<float>(f, n, Opm::EclIO::REAL, w);
        else if (unit == "writer_double") ok = one<double>(f, n, Opm::EclIO::DOUB, w);
        else ok = one<int>(f, n, Opm::EclIO::INTE, w);
        if (!ok) break;
    }
    fs::remove_all(dir);
    if (ok) w << unit << ": every tested length decodes to the published layout (bounded native search)";
    return r.verdict(ok, w.str());
}
