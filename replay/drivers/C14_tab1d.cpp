// REPLAY_SEARCH
// Native replay for C14/tab1d: the counterexample is a table of symbolic length; the driver evaluates the real
// Tabulated1DFunction<double> on tables with 2..6 nodes (several spacings, monotone and non-monotone ordinates):
// at every node the table value is returned, between nodes the value lies within the bracketing node values and the
// derivative equals the slope of the bracketing segment.  Exit 1 = a table / abscissa on which the real code differs.
#include "replay.hpp"
#include <opm/material/common/Tabulated1DFunction.hpp>
#include <sstream>
#include <vector>
int main(int argc, char** argv)
{
    Replay r(argc, argv);
    std::ostringstream w;
    for (int n = 2; n <= 6; ++n)
        for (int variant = 0; variant < 4; ++variant) {
            std::vector<double> x(n), y(n);
            for (int i = 0; i < n; ++i) {
                x[i] = (variant & 1) ? 1.0 + i * i * 0.5 + i : -2.0 + 0.75 * i;
                y[i] = (variant & 2) ? ((i * 5) % 7) - 3.0 : 10.0 + 2.5 * i * (i + 1);
            }
            Opm::Tabulated1DFunction<double> f;
            f.setXYContainers(x, y);
            for (int i = 0; i < n; ++i) {
                const double v = f.eval(x[i], false);
                if (!Replay::close(v, y[i])) { w << "table with " << n << " nodes (variant " << variant << "): eval at node " << i << " (x=" << x[i] << ") = " << v << ", table value " << y[i]; return r.verdict(false, w.str()); }
            }
            for (int i = 0; i + 1 < n; ++i)
                for (double t : {0.25, 0.5, 0.9}) {
                    const double xx = x[i] + t * (x[i + 1] - x[i]);
                    const double v = f.eval(xx, false), d = f.evalDerivative(xx, false);
                    const double lo = std::min(y[i], y[i + 1]), hi = std::max(y[i], y[i + 1]), slope = (y[i + 1] - y[i]) / (x[i + 1] - x[i]);
                    if (v < lo - 1e-12 || v > hi + 1e-12 || !Replay::close(v, y[i] + t * (y[i + 1] - y[i])) || !Replay::close(d, slope, 1.0)) {
                        w << "table with " << n << " nodes (variant " << variant << "): at x=" << xx << " in segment " << i << " eval = " << v << " (bracket [" << lo << "," << hi
                          << "], interpolant " << y[i] + t * (y[i + 1] - y[i]) << "), derivative = " << d << " (slope " << slope << ")";
                        return r.verdict(false, w.str());
                    }
                }
        }
    return r.verdict(true, "node values, brackets and slopes hold on all test tables (bounded native search)");
}
