// REPLAY_SOURCES: opm/input/eclipse/Schedule/Action/ActionValue.cpp
// REPLAY_SEARCH (the driver of unit compare: well lists of up to 3 wells over 4 values, the 6 comparison operators and 4
// right hand sides through the public Value::eval_cmp, plus the scalar cases)
// Unit wellcompare shares the driver of unit compare (obligations of evalWellComparisons are demonstrated by the well-list search).
#include "C18_compare.cpp"
