// REPLAY_SOURCES: opm/io/eclipse/rst/connection.cpp
#include "replay.hpp"
#include <opm/io/eclipse/rst/connection.hpp>
#include <sstream>
int main(int argc, char** argv)
{
    Replay r(argc, argv);
    const double cf = r.num("cf"), kh = r.num("kh"), rw = r.num("rw"), skin = r.num("skin");
    const double r0 = Opm::RestartIO::RstConnection::inverse_peaceman(cf, kh, rw, skin);
    std::ostringstream w; w.precision(17);
    const double two_pi = 6.283185307179586476925286766559;
    const double lhs = cf * (std::log(r0 / rw) + skin), rhs = two_pi * kh;
    w << "cf=" << cf << " kh=" << kh << " rw=" << rw << " skin=" << skin << " -> r0=" << r0
      << "; CF(ln(r0/rw)+S)=" << lhs << " 2piKh=" << rhs << " rel.diff=" << std::fabs(lhs - rhs) / std::fabs(rhs);
    if (r.is("positive")) return r.verdict(r0 > 0, w.str());
    if (r.is("peaceman")) {
        if (!std::isfinite(r0) || r0 <= 0) { std::cout << "counterexample not representable in doubles: " << w.str() << "\n"; return 0; }
        // the obligation demands agreement to 1e-12 relative; doubles add rounding of ~1e-15, so 1e-11 decides safely
        return r.verdict(std::fabs(lhs - rhs) <= 1e-11 * std::fabs(rhs), w.str());
    }
    return 3;
}
