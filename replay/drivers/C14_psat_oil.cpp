// REPLAY_SEARCH
// Native replay for C14/psat_oil: a one-region METRIC live-oil model (PVTO: Rs of 10 .. 150 sm3/sm3 over 20 .. 350 bar) is loaded through the real parser, EclipseState
// and LiveOilPvt::initFromState (header-only templates: compiled from /repo's current headers); at every node of the
// saturated table and half-way between nodes  saturationPressure(Rv_sat(p))  must give back p.
#include <config.h>
#include "replay.hpp"
#include <opm/material/fluidsystems/blackoilpvt/LiveOilPvt.hpp>
#include <opm/input/eclipse/Deck/Deck.hpp>
#include <opm/input/eclipse/EclipseState/EclipseState.hpp>
#include <opm/input/eclipse/Parser/Parser.hpp>
#include <opm/input/eclipse/Python/Python.hpp>
#include <opm/input/eclipse/Schedule/Schedule.hpp>
#include <sstream>
#include <vector>
int main(int argc, char** argv)
{
    Replay r(argc, argv);
    const std::string deck_text =
        "RUNSPEC\nDIMENS\n 1 1 1 /\nOIL\nGAS\nWATER\nVAPOIL\nDISGAS\nMETRIC\nTABDIMS\n 1 1 /\nSTART\n 1 'JAN' 2020 /\nGRID\nDX\n 100 /\nDY\n 100 /\nDZ\n 10 /\nTOPS\n 2000 /\nPORO\n 0.3 /\nPERMX\n 100 /\nPERMY\n 100 /\nPERMZ\n 10 /\n"
        "PROPS\nDENSITY\n 800 1000 1.0 /\nPVTW\n 200 1.0 4e-5 0.5 0 /\n"
        "PVTO\n 10 20 1.05 1.2\n     100 1.03 1.3 /\n 60 120 1.25 0.9\n     300 1.22 1.0 /\n 150 350 1.60 0.6\n     500 1.55 0.7 /\n/\n"
        "PVTG\n 20 0.000012 0.0600 0.0125\n     0.0 0.0598 0.0123 /\n 70 0.000045 0.0170 0.0145\n     0.0 0.0169 0.0141 /\n 140 0.000120 0.0085 0.0180\n     0.000045 0.0084 0.0174\n     0.0 0.0083 0.0168 /\n"
        " 260 0.000290 0.0048 0.0245\n     0.000120 0.0047 0.0230\n     0.0 0.0046 0.0215 /\n 400 0.000500 0.0036 0.0330\n     0.000290 0.0035 0.0305\n     0.0 0.0034 0.0280 /\n/\nSCHEDULE\n";
    std::ostringstream w; w.precision(10);
    try {
        const auto deck = Opm::Parser{}.parseString(deck_text);
        const Opm::EclipseState es(deck);
        const Opm::Schedule sched(deck, es, std::make_shared<Opm::Python>());
        Opm::LiveOilPvt<double> pvt;
        pvt.initFromState(es, sched);
        const double T = 300.0;
        const std::vector<double> nodes = {20e5, 120e5, 350e5};
        std::vector<double> ps = nodes;
        for (std::size_t i = 0; i + 1 < nodes.size(); ++i) ps.push_back(0.5 * (nodes[i] + nodes[i + 1]));
        for (double p : ps) {
            const double rv = pvt.saturatedGasDissolutionFactor(0u, T, p);
            const double back = pvt.saturationPressure(0u, T, rv);
            if (std::fabs(back - p) > 1e-6 * p) {
                w << "saturated Rs at " << p / 1e5 << " bar is " << rv << "; saturationPressure(Rs) gives " << back / 1e5 << " bar";
                return r.verdict(false, w.str());
            }
        }
    } catch (const std::exception& e) { return r.verdict(false, std::string("the test model does not load or the inversion raises: ") + std::string(e.what()).substr(0, 160)); }
    return r.verdict(true, "saturationPressure inverts the saturated Rs relation at every node and mid-point of the PVTO test table (bounded native search)");
}
