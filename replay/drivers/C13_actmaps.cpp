// REPLAY_SOURCES: opm/input/eclipse/EclipseState/Grid/EclipseGrid.cpp
// REPLAY_SEARCH
// Native replay for C13/actmaps.  The verifier's counterexamples for this unit live in unbounded (SMT) arrays and an
// uninterpreted ACTNUM source, so instead of decoding them the driver SEARCHES the real EclipseGrid for a failing
// input of the same obligation: every ACTNUM pattern (values -1/0/1/2 sampled, all 0/1 masks) of small grids, applied
// through resetACTNUM(const int*), twice in a row with the volume cache filled in between.  Exit 1 = an input on which
// the real code breaks the index-map / cache clauses was found (printed); 0 = none found within the bound.
#include "replay.hpp"
#include <opm/input/eclipse/Deck/Deck.hpp>
#include <opm/input/eclipse/Parser/Parser.hpp>
#include <opm/input/eclipse/EclipseState/Grid/EclipseGrid.hpp>
#include <sstream>
#include <vector>

static Opm::EclipseGrid makeGrid(int nx, int ny, int nz)
{
    std::ostringstream d;
    d << "RUNSPEC\nDIMENS\n " << nx << ' ' << ny << ' ' << nz << " /\nGRID\nDXV\n";
    for (int i = 0; i < nx; ++i) d << ' ' << 10 * (i + 1);
    d << " /\nDYV\n";
    for (int j = 0; j < ny; ++j) d << ' ' << 3 + 2 * j;
    d << " /\nDZ\n";
    for (int g = 0; g < nx * ny * nz; ++g) d << ' ' << 1 + g;
    d << " /\nTOPS\n " << nx * ny << "*1000 /\n";
    return Opm::EclipseGrid(Opm::Parser{}.parseString(d.str()));
}

static bool checkMaps(const Opm::EclipseGrid& grid, const std::vector<int>& act, std::ostringstream& w)
{
    const std::size_t N = grid.getCartesianSize();
    std::size_t nact = 0;
    for (std::size_t g = 0; g < N; ++g) nact += act[g] > 0;
    if (grid.getNumActive() != nact) { w << "getNumActive() = " << grid.getNumActive() << ", ACTNUM has " << nact << " active cells"; return false; }
    for (std::size_t g = 0; g < N; ++g) {
        if (grid.cellActive(g) != (act[g] > 0)) { w << "cellActive(" << g << ") disagrees with ACTNUM"; return false; }
        bool thrown = false; std::size_t a = 0;
        try { a = grid.activeIndex(g); } catch (const std::exception&) { thrown = true; }
        if (act[g] > 0) {
            if (thrown || a >= nact || grid.getGlobalIndex(a) != g) { w << "active cell " << g << ": activeIndex/getGlobalIndex are not inverse"; return false; }
        } else if (!thrown) { w << "inactive cell " << g << " has active index " << a; return false; }
    }
    for (std::size_t a = 0; a < nact; ++a) {
        const auto g = grid.getGlobalIndex(a);
        if (g >= N || act[g] <= 0 || grid.activeIndex(g) != a) { w << "active index " << a << " -> cell " << g << " is not inverse / not active"; return false; }
    }
    return true;
}

int main(int argc, char** argv)
{
    Replay r(argc, argv);
    const int dims[][3] = { {1,1,1}, {2,1,1}, {2,2,1}, {3,2,1}, {2,2,2} };
    std::ostringstream w;
    for (const auto& d : dims) {
        auto grid = makeGrid(d[0], d[1], d[2]);
        const std::size_t N = grid.getCartesianSize();
        const auto fresh = makeGrid(d[0], d[1], d[2]);     // never reset, cache never filled: reference volumes
        for (unsigned m1 = 0; m1 < (1u << N); ++m1) {
            for (unsigned m2 : { m1, (m1 * 2654435761u >> 7) & ((1u << N) - 1), ((m1 << 1) | (m1 >> (N - 1))) & ((1u << N) - 1) }) {
                std::vector<int> a1(N), a2(N);
                for (std::size_t g = 0; g < N; ++g) { a1[g] = (m1 >> g) & 1 ? 1 + (g % 2) : -(int)(g % 2); a2[g] = (m2 >> g) & 1; }
                grid.resetACTNUM(a1);
                if (!checkMaps(grid, a1, w)) { w << "  [grid " << d[0] << "x" << d[1] << "x" << d[2] << ", ACTNUM mask " << m1 << "]"; return r.verdict(false, w.str()); }
                (void) grid.activeVolume();                 // fill the per-active-cell cache
                grid.resetACTNUM(a2);
                if (!checkMaps(grid, a2, w)) { w << "  [grid " << d[0] << "x" << d[1] << "x" << d[2] << ", ACTNUM mask " << m1 << " then " << m2 << "]"; return r.verdict(false, w.str()); }
                for (std::size_t g = 0; g < N; ++g) {
                    const double v = grid.getCellVolume(g), ref = fresh.getCellVolume(g);
                    if (!Replay::close(v, ref)) {
                        w << "getCellVolume(" << g << ") = " << v << " but the cell's geometry gives " << ref << " after resetACTNUM(mask " << m1
                          << "), activeVolume(), resetACTNUM(mask " << m2 << ") on a " << d[0] << "x" << d[1] << "x" << d[2] << " grid (stale volume cache)";
                        return r.verdict(false, w.str());
                    }
                }
            }
        }
    }
    return r.verdict(true, "no failing ACTNUM sequence on grids up to 2x2x2 (bounded native search)");
}
