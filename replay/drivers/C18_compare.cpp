// REPLAY_SOURCES: opm/input/eclipse/Schedule/Action/ActionValue.cpp
// REPLAY_SEARCH (without a counterexample: every token type 0..13 as the operator, over every ordered pair of 7 values
// including equal ones, one ulp apart, signed zeros and large magnitudes, through the public Value::eval_cmp; well lists of
// up to 3 wells over 4 values, the 6 comparison operators and 4 right hand sides)
// Replays a refuted obligation of unit compare through the public API: Value(lhs).eval_cmp(op, Value(rhs)).
#include "replay.hpp"
#include <opm/input/eclipse/Schedule/Action/ActionValue.hpp>
#include <opm/input/eclipse/Schedule/Action/ActionResult.hpp>
#include <cmath>
#include <sstream>
#include <vector>
using namespace Opm::Action;
// 0 = false, 1 = true, 2 = rejected
static int expect(int op, double a, double b) {
    switch (op) { case 4: return a > b; case 5: return a >= b; case 6: return a < b; case 7: return a <= b; case 8: return a == b; case 9: return a != b; }
    return 2;
}
static int actual(int op, double a, double b) {
    try { return Value(a).eval_cmp(static_cast<TokenType>(op), Value(b)).conditionSatisfied() ? 1 : 0; }
    catch (const std::exception&) { return 2; }
}
static const char* show(int v) { return v == 2 ? "rejected" : (v ? "true" : "false"); }
static int one(const Replay& r, int op, double a, double b, bool final) {
    const int e = expect(op, a, b), g = actual(op, a, b);
    std::ostringstream w; w.precision(17);
    w << "token type " << op << " on (" << a << ", " << b << ") gives " << show(g) << ", the contract requires " << show(e);
    if (g != e) return r.verdict(false, w.str());
    return final ? r.verdict(true, w.str()) : 0;
}
// well-level left side with up to 3 wells: the matching wells must be exactly those whose value satisfies the comparison
static int wellLists(const Replay& r)
{
    const std::vector<double> v = { -1.0, 0.0, 1.0, 2.0 };
    const char* names[] = { "A", "B", "C" };
    for (int op = 4; op <= 9; ++op) for (double rhs : v) for (int n = 1; n <= 3; ++n) {
        int idx[3] = {0, 0, 0};
        for (long code = 0; code < (n == 1 ? 4 : n == 2 ? 16 : 64); ++code) {
            idx[0] = code & 3; idx[1] = (code >> 2) & 3; idx[2] = (code >> 4) & 3;
            Value lhs(names[0], v[idx[0]]);
            for (int j = 1; j < n; ++j) lhs.add_well(names[j], v[idx[j]]);
            bool any = false; std::ostringstream w; w.precision(17);
            w << "wells";
            for (int j = 0; j < n; ++j) { w << " " << names[j] << "=" << v[idx[j]]; any = any || expect(op, v[idx[j]], rhs) == 1; }
            w << " compared by token type " << op << " with " << rhs << ": ";
            try {
                const auto res = lhs.eval_cmp(static_cast<TokenType>(op), Value(rhs));
                if (res.conditionSatisfied() != any) { w << "condition is " << (any ? "false" : "true") << ", the contract requires " << (any ? "true" : "false"); return r.verdict(false, w.str()); }
                for (int j = 0; j < n; ++j) {
                    const bool e = expect(op, v[idx[j]], rhs) == 1;
                    if (res.matches().hasWell(names[j]) != e) { w << "well " << names[j] << (e ? " is not listed but matches" : " is listed but does not match"); return r.verdict(false, w.str()); }
                }
            }
            catch (const std::exception& e) { w << "raises " << e.what(); return r.verdict(false, w.str()); }
        }
    }
    return -1;
}
int main(int argc, char** argv)
{
    Replay r(argc, argv);
    if (r.is("evalWellComparisons/")) {
        // the counterexample's well list is unbounded data; the obligation is demonstrated by a search over well lists instead
        const int rc = wellLists(r);
        return rc >= 0 ? rc : r.verdict(true, "every list of up to 3 wells over 4 values, 6 operators and 4 right hand sides gives exactly the matching wells");
    }
    if (r.is("bounded_native_search")) {
        { const int rc = wellLists(r); if (rc >= 0) return rc; }
        const std::vector<double> v = { -1.0e30, -1.0, -0.0, 0.0, 1.0, std::nextafter(1.0, 2.0), 1.0e30 };
        for (int op = 0; op <= 13; ++op) for (double a : v) for (double b : v)
            if (one(r, op, a, b, false)) return 1;
        // well-level left side / well-level right side
        for (int op = 0; op <= 13; ++op) for (double a : v) for (double b : v) {
            int g; bool well = false; const int e = expect(op, a, b);
            try { const auto res = Value("W", a).eval_cmp(static_cast<TokenType>(op), Value(b)); g = res.conditionSatisfied() ? 1 : 0; well = res.matches().hasWell("W"); }
            catch (const std::exception&) { g = 2; }
            if (g != e || well != (e == 1)) { std::ostringstream w; w.precision(17); w << "well W with value " << a << " compared by token type " << op << " with " << b << " gives " << show(g) << (well ? " matching W" : " not matching W") << ", the contract requires " << show(e); return r.verdict(false, w.str()); }
            try { (void) Value(a).eval_cmp(static_cast<TokenType>(op), Value("R", b)); return r.verdict(false, "a well-level right hand side is accepted"); }
            catch (const std::exception&) {}
        }
        return r.verdict(true, "all 14 token types over 49 operand pairs behave as contracted (bounded native search)");
    }
    if (r.is("eval_cmp/") || r.is("value_scalar/")) {
        // the counterexample gives both nodes: scalar or well-level (a well-level node is built with one well W)
        const int op = static_cast<int>(r.integer("op"));
        const bool ls = r.num("verif_in_self.is_scalar_", 1.0) != 0.0, rs = r.num("verif_in_rhs.is_scalar_", 1.0) != 0.0;
        const double a = r.num("verif_in_self.scalar_value_", 0.0), b = r.num("verif_in_rhs.scalar_value_", 0.0);
        const Value lhs = ls ? Value(a) : Value("W", a), rhs = rs ? Value(b) : Value("R", b);
        int g, e = rs ? expect(op, a, b) : 2; bool well = false;
        try { const auto res = lhs.eval_cmp(static_cast<TokenType>(op), rhs); g = res.conditionSatisfied() ? 1 : 0; well = res.matches().hasWell("W"); }
        catch (const std::exception&) { g = 2; }
        std::ostringstream w; w.precision(17);
        w << (ls ? "scalar " : "well-level ") << a << " compared by token type " << op << " with " << (rs ? "scalar " : "well-level ") << b << " gives " << show(g)
          << (well ? " matching W" : "") << ", the contract requires " << show(e) << ((!ls && e == 1) ? " matching W" : "");
        return r.verdict(g == e && well == (!ls && e == 1), w.str());
    }
    return one(r, static_cast<int>(r.integer("op")), r.num("lhs", 0.0), r.num("rhs", 0.0), true);
}
