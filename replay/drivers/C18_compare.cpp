// REPLAY_SOURCES: opm/input/eclipse/Schedule/Action/ActionValue.cpp
// REPLAY_SEARCH (without a counterexample: every token type 0..13 as the operator, over every ordered pair of 7 values
// including equal ones, one ulp apart, signed zeros and large magnitudes, through the public Value::eval_cmp)
// Replays a refuted obligation of unit compare through the public API: Value(lhs).eval_cmp(op, Value(rhs)).
#include "replay.hpp"
#include <opm/input/eclipse/Schedule/Action/ActionValue.hpp>
#include <opm/input/eclipse/Schedule/Action/ActionResult.hpp>
#include <cmath>
#include <sstream>
#include <vector>
using namespace Opm::Action;
// 0 = false, 1 = true, 2 = rejected
static int expect(int op, double a, double b) {
    switch (op) { case 4: return a > b; case 5: return a >= b; case 6: return a < b; case 7: return a <= b; case 8: return a == b; case 9: return a != b; }
    return 2;
}
static int actual(int op, double a, double b) {
    try { return Value(a).eval_cmp(static_cast<TokenType>(op), Value(b)).conditionSatisfied() ? 1 : 0; }
    catch (const std::exception&) { return 2; }
}
static const char* show(int v) { return v == 2 ? "rejected" : (v ? "true" : "false"); }
static int one(const Replay& r, int op, double a, double b, bool final) {
    const int e = expect(op, a, b), g = actual(op, a, b);
    std::ostringstream w; w.precision(17);
    w << "token type " << op << " on (" << a << ", " << b << ") gives " << show(g) << ", the contract requires " << show(e);
    if (g != e) return r.verdict(false, w.str());
    return final ? r.verdict(true, w.str()) : 0;
}
int main(int argc, char** argv)
{
    Replay r(argc, argv);
    if (r.is("bounded_native_search")) {
        const std::vector<double> v = { -1.0e30, -1.0, -0.0, 0.0, 1.0, std::nextafter(1.0, 2.0), 1.0e30 };
        for (int op = 0; op <= 13; ++op) for (double a : v) for (double b : v)
            if (one(r, op, a, b, false)) return 1;
        // well-level left side / well-level right side
        for (int op = 0; op <= 13; ++op) for (double a : v) for (double b : v) {
            int g; bool well = false; const int e = expect(op, a, b);
            try { const auto res = Value("W", a).eval_cmp(static_cast<TokenType>(op), Value(b)); g = res.conditionSatisfied() ? 1 : 0; well = res.matches().hasWell("W"); }
            catch (const std::exception&) { g = 2; }
            if (g != e || well != (e == 1)) { std::ostringstream w; w.precision(17); w << "well W with value " << a << " compared by token type " << op << " with " << b << " gives " << show(g) << (well ? " matching W" : " not matching W") << ", the contract requires " << show(e); return r.verdict(false, w.str()); }
            try { (void) Value(a).eval_cmp(static_cast<TokenType>(op), Value("R", b)); return r.verdict(false, "a well-level right hand side is accepted"); }
            catch (const std::exception&) {}
        }
        return r.verdict(true, "all 14 token types over 49 operand pairs behave as contracted (bounded native search)");
    }
    if (r.is("eval_cmp/") || r.is("value_scalar/")) {
        // the counterexample gives both nodes: scalar or well-level (a well-level node is built with one well W)
        const int op = static_cast<int>(r.integer("op"));
        const bool ls = r.num("verif_in_self.is_scalar_", 1.0) != 0.0, rs = r.num("verif_in_rhs.is_scalar_", 1.0) != 0.0;
        const double a = r.num("verif_in_self.scalar_value_", 0.0), b = r.num("verif_in_rhs.scalar_value_", 0.0);
        const Value lhs = ls ? Value(a) : Value("W", a), rhs = rs ? Value(b) : Value("R", b);
        int g, e = rs ? expect(op, a, b) : 2; bool well = false;
        try { const auto res = lhs.eval_cmp(static_cast<TokenType>(op), rhs); g = res.conditionSatisfied() ? 1 : 0; well = res.matches().hasWell("W"); }
        catch (const std::exception&) { g = 2; }
        std::ostringstream w; w.precision(17);
        w << (ls ? "scalar " : "well-level ") << a << " compared by token type " << op << " with " << (rs ? "scalar " : "well-level ") << b << " gives " << show(g)
          << (well ? " matching W" : "") << ", the contract requires " << show(e) << ((!ls && e == 1) ? " matching W" : "");
        return r.verdict(g == e && well == (!ls && e == 1), w.str());
    }
    return one(r, static_cast<int>(r.integer("op")), r.num("lhs", 0.0), r.num("rhs", 0.0), true);
}
