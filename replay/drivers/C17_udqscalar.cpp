// REPLAY_SOURCES: opm/input/eclipse/Schedule/UDQ/UDQSet.cpp
#include "replay.hpp"
#include <opm/input/eclipse/Schedule/UDQ/UDQSet.hpp>
#include <sstream>
using Opm::UDQScalar;
static UDQScalar make(const Replay& r, const std::string& p) {
    UDQScalar s;                                  // undefined
    if (r.num(p + ".m_value.has", 0) != 0) s.assign(r.num(p + ".m_value.val", 0.0));
    return s;
}
int main(int argc, char** argv)
{
    Replay r(argc, argv);
    std::ostringstream w; w.precision(17);
    // free operators with a scalar on the left:  d_<op>_S/ensures value | defined_iff_defined
    for (const char* op : {"add", "sub", "mul", "div"}) {
        if (!r.is(std::string("d_") + op + "_S/")) continue;
        const double lhs = r.num("lhs");
        const auto rhs = make(r, "verif_in_rhs");
        UDQScalar res; double expect = 0;
        switch (op[0]) {
        case 'a': res = lhs + rhs; if (rhs.defined()) expect = lhs + rhs.get(); break;
        case 's': res = lhs - rhs; if (rhs.defined()) expect = lhs - rhs.get(); break;
        case 'm': res = lhs * rhs; if (rhs.defined()) expect = lhs * rhs.get(); break;
        default:  res = lhs / rhs; if (rhs.defined()) expect = lhs / rhs.get(); break;
        }
        w << lhs << " " << op << " UDQScalar(" << (rhs.defined() ? std::to_string(rhs.get()) : "undefined") << ") -> "
          << (res.defined() ? std::to_string(res.get()) : "undefined") << ", expected " << expect;
        if (r.is("defined")) return r.verdict(res.defined() == rhs.defined(), w.str());
        return r.verdict(!res.defined() || Replay::close(res.get(), expect), w.str());
    }
    std::cerr << "no native replay for this obligation\n";
    return 3;
}
