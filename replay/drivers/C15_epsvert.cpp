// REPLAY_SEARCH
// Native replay for C15/epsvert: the vertical scaling functions of EclEpsTwoPhaseLaw are evaluated with the real code
// for every combination of the scaling switches and a grid of end points / values and compared with the documented
// functions: pure vertical scaling value * KRW_scaled / KRW_table, three-point scaling through (KRWR, KRW), capillary
// pressure by max-pc ratio or Leverett factor; identity when scaled and table end points coincide; mutual inverses.
#define private public
#include <opm/material/fluidmatrixinteractions/EclEpsTwoPhaseLaw.hpp>
#undef private
#include <opm/material/fluidmatrixinteractions/PiecewiseLinearTwoPhaseMaterial.hpp>
#include <opm/material/fluidmatrixinteractions/MaterialTraits.hpp>
#include "replay.hpp"
#include <memory>
#include <sstream>
using Traits = Opm::TwoPhaseMaterialTraits<double, 0, 1>;
using Law = Opm::EclEpsTwoPhaseLaw<Opm::PiecewiseLinearTwoPhaseMaterial<Traits>>;
int main(int argc, char** argv)
{
    Replay r(argc, argv);
    std::ostringstream w;
    for (int sw = 0; sw < 16; ++sw)
        for (double krwS : {0.4, 0.8}) for (double krwrS : {0.2, 0.3}) for (double pcS : {2.0, 5.0})
        for (double krwU : {0.5, 0.8}) for (double krwrU : {0.3, 0.5}) for (double pcU : {2.0, 4.0}) {
            auto cfg = std::make_shared<Opm::EclEpsConfig>();
            cfg->setEnableKrwScaling(sw & 1); cfg->setEnableThreePointKrwScaling((sw & 2) != 0); cfg->setEnablePcScaling((sw & 4) != 0); cfg->setEnableLeverettScaling((sw & 8) != 0);
            auto un = std::make_shared<Opm::EclEpsScalingPoints<double>>(); Opm::EclEpsScalingPoints<double> sc;
            un->setMaxKrw(krwU); un->setKrwr(krwrU); un->setMaxPcnw(pcU);
            sc.setMaxKrw(krwS); sc.setKrwr(krwrS); sc.setMaxPcnw(pcS);
            sc.setSaturationKrwPoint(0, 0.1); sc.setSaturationKrwPoint(1, 0.6); sc.setSaturationKrwPoint(2, 0.9);
            Law::Params p; p.setConfig(cfg); p.setUnscaledPoints(un); p.setScaledPoints(sc);
            const bool on = sw & 1, three = sw & 2, pcs = sw & 4, lev = sw & 8;
            for (double S : {0.3, 0.6, 0.75}) for (double v : {0.0, krwrU, 0.4, krwU}) {
                const double got = Law::unscaledToScaledKrw_<double>(S, p, v);
                double e = v;
                if (on && !three) e = v * (krwS / krwU);
                else if (on && three) e = !(S > 0.6) ? v * (krwrS / krwrU) : (krwU > krwrU ? krwrS + (v - krwrU) / (krwU - krwrU) * (krwS - krwrS) : krwrS + (S - 0.6) / (0.9 - 0.6) * (krwS - krwrS));
                const double gotPc = Law::unscaledToScaledPcnw_<double>(p, v), ePc = lev ? v * pcS : (pcs ? v * (pcS / pcU) : v);
                const double back = Law::scaledToUnscaledPcnw_<double>(p, gotPc);
                if (!Replay::close(got, e, 1.0) || !Replay::close(gotPc, ePc, 1.0) || !Replay::close(back, v, 1.0)) {
                    w << "switches krw=" << on << " three-point=" << three << " pc=" << pcs << " leverett=" << lev << ", table KRW/KRWR/PCW " << krwU << "/" << krwrU << "/" << pcU
                      << ", scaled " << krwS << "/" << krwrS << "/" << pcS << ", Sw=" << S << ", value " << v << ": scaled krw " << got << " (documented " << e << "), scaled pc " << gotPc
                      << " (documented " << ePc << "), pc round trip " << back;
                    return r.verdict(false, w.str());
                }
            }
        }
    return r.verdict(true, "vertical kr / pc scaling equals the documented functions for all switch combinations on the test grid (bounded native search)");
}
