// REPLAY_SOURCES: opm/input/eclipse/EclipseState/Grid/Operate.cpp
// REPLAY_SEARCH
// Native replay for C12/operate: every OPERATE function, obtained by name through the public Operate::get(name, alpha,
// beta), is evaluated on a grid of (R, X, alpha, beta) values and compared with its documented formula
//   MULTA aX+b | POLY R+aX^b | SLOG 10^(a+bX) | LOG10 | LOGE | INV 1/X | MULTX aX | ADDX X+a | COPY X |
//   MAXLIM min(X,a) | MINLIM max(X,a) | MULTP aX^b | ABS |X| | MULTIPLY R*X.
#include "replay.hpp"
#include <opm/input/eclipse/EclipseState/Grid/Operate.hpp>
#include <cmath>
#include <functional>
#include <sstream>
#include <vector>
int main(int argc, char** argv)
{
    Replay r(argc, argv);
    struct Op { const char* name; std::function<double(double, double, double, double)> ref; bool positiveX; };
    const std::vector<Op> ops = {
        {"MULTA", [](double, double X, double a, double b) { return a * X + b; }, false},
        {"POLY", [](double R, double X, double a, double b) { return R + a * std::pow(X, b); }, true},
        {"SLOG", [](double, double X, double a, double b) { return std::pow(10.0, a + b * X); }, false},
        {"LOG10", [](double, double X, double, double) { return std::log10(X); }, true},
        {"LOGE", [](double, double X, double, double) { return std::log(X); }, true},
        {"INV", [](double, double X, double, double) { return 1.0 / X; }, true},
        {"MULTX", [](double, double X, double a, double) { return a * X; }, false},
        {"ADDX", [](double, double X, double a, double) { return X + a; }, false},
        {"COPY", [](double, double X, double, double) { return X; }, false},
        {"MAXLIM", [](double, double X, double a, double) { return std::min(X, a); }, false},
        {"MINLIM", [](double, double X, double a, double) { return std::max(X, a); }, false},
        {"MULTP", [](double, double X, double a, double b) { return a * std::pow(X, b); }, true},
        {"ABS", [](double, double X, double, double) { return std::fabs(X); }, false},
        {"MULTIPLY", [](double R, double X, double, double) { return R * X; }, false} };
    std::ostringstream w; w.precision(12);
    for (const auto& op : ops)
        for (double a : {-1.5, 0.25, 2.0}) for (double b : {-0.5, 1.0, 2.0}) {
            const auto f = Opm::Operate::get(op.name, a, b);
            for (double R : {-2.0, 0.5, 3.0}) for (double X : {-3.0, 0.1, 1.0, 7.5}) {
                if (op.positiveX && X <= 0) continue;
                const double got = f(R, X), want = op.ref(R, X, a, b);
                if (!Replay::close(got, want, want)) {
                    w << "OPERATE " << op.name << " with alpha " << a << ", beta " << b << " at R = " << R << ", X = " << X << " gives " << got << ", the documented formula gives " << want;
                    return r.verdict(false, w.str());
                }
            }
        }
    return r.verdict(true, "all 14 OPERATE functions equal their documented formulas on the test grid (bounded native search)");
}
