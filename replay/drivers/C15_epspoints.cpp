// REPLAY_SOURCES: opm/material/fluidmatrixinteractions/EclEpsScalingPoints.cpp
// Native replay for C15/epspoints: EclEpsScalingPoints<double>::init on the verifier's end points; the documented
// three-point end-point table is evaluated independently here.
#include "replay.hpp"
#include <opm/material/fluidmatrixinteractions/EclEpsScalingPoints.hpp>
#include <opm/material/fluidmatrixinteractions/EclEpsConfig.hpp>
#include <sstream>
int main(int argc, char** argv)
{
    Replay r(argc, argv);
    Opm::EclEpsScalingPointsInfo<double> I{};
    auto in = [&](const char* n) { return r.num(std::string("verif_in_epsInfo.") + n, 0.0); };
    I.Swl = in("Swl"); I.Sgl = in("Sgl"); I.Swcr = in("Swcr"); I.Sgcr = in("Sgcr"); I.Sowcr = in("Sowcr");
    I.Sogcr = in("Sogcr"); I.Swu = in("Swu"); I.Sgu = in("Sgu"); I.maxPcow = in("maxPcow"); I.maxPcgo = in("maxPcgo");
    I.pcowLeverettFactor = in("pcowLeverettFactor"); I.pcgoLeverettFactor = in("pcgoLeverettFactor");
    I.Krwr = in("Krwr"); I.Krgr = in("Krgr"); I.Krorw = in("Krorw"); I.Krorg = in("Krorg");
    I.maxKrw = in("maxKrw"); I.maxKrow = in("maxKrow"); I.maxKrog = in("maxKrog"); I.maxKrg = in("maxKrg");
    const long sys = r.integer("epsSystemType");
    Opm::EclEpsConfig cfg;
    Opm::EclEpsScalingPoints<double> p;
    p.init(I, cfg, static_cast<Opm::EclTwoPhaseSystemType>(sys));
    const bool ow = sys == static_cast<long>(Opm::EclTwoPhaseSystemType::OilWater);
    double ew[3], en[3], epc[3];
    if (ow) {
        ew[0] = I.Swcr; ew[1] = 1 - I.Sowcr - I.Sgl; ew[2] = I.Swu;
        en[0] = I.Swl + I.Sgl; en[1] = I.Swcr + I.Sgl; en[2] = 1 - I.Sowcr;
        epc[0] = I.Swl; epc[1] = epc[2] = I.Swu;
    } else {
        ew[0] = I.Sogcr; ew[1] = 1 - I.Sgcr - I.Swl; ew[2] = 1 - I.Swl - I.Sgl;
        en[0] = 1 - I.Swl - I.Sgu; en[1] = I.Sogcr; en[2] = 1 - I.Swl - I.Sgcr;
        epc[0] = 1 - I.Swl - I.Sgu; epc[1] = epc[2] = 1 - I.Swl - I.Sgl;
    }
    std::ostringstream w;
    bool ok = true;
    auto cmp = [&](const char* what, const std::array<double,3>& got, const double* exp) {
        for (int i = 0; i < 3; ++i) {
            if (!Replay::close(got[i], exp[i])) {
                ok = false;
                w << what << "[" << i << "] = " << got[i] << ", documented end point " << exp[i] << "; ";
            }
        }
    };
    if (r.is("krw_points") || r.is("krog_points") || r.is("ordered")) cmp("saturationKrwPoints", p.saturationKrwPoints(), ew);
    if (r.is("krow_points") || r.is("krg_points") || r.is("ordered")) cmp("saturationKrnPoints", p.saturationKrnPoints(), en);
    if (r.is("pc_points")) cmp("saturationPcPoints", p.saturationPcPoints(), epc);
    if (r.is("vertical")) {
        const double e[4] = { ow ? I.Krwr : I.Krorg, ow ? I.Krorw : I.Krgr, ow ? I.maxKrw : I.maxKrog, ow ? I.maxKrow : I.maxKrg };
        const double g[4] = { p.krwr(), p.krnr(), p.maxKrw(), p.maxKrn() };
        for (int i = 0; i < 4; ++i) if (!Replay::close(g[i], e[i])) { ok = false; w << "vertical end point " << i << " = " << g[i] << " expected " << e[i] << "; "; }
    }
    if (ok) w << "all scaling points equal the documented end points (system " << sys << ")";
    return r.verdict(ok, w.str());
}
