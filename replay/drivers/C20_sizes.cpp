// REPLAY_SOURCES: opm/io/eclipse/EclUtil.cpp
// C20: "a result or an exception, never a crash".  The real function is called in a child process with the
// counterexample's arguments; a fatal signal (SIGFPE from an integer division by zero, SIGSEGV ...) is the failure.
#include "replay.hpp"
#include <opm/io/eclipse/EclUtil.hpp>
#include <sys/wait.h>
#include <unistd.h>
using namespace Opm::EclIO;
int main(int argc, char** argv)
{
    Replay r(argc, argv);
    const long num = r.integer("num"); const int t = (int)r.integer("arrType"); const int es = (int)r.integer("elementSize");
    const bool bin = r.is("sizeOnDiskBinary");
    const pid_t pid = fork();
    if (pid == 0) {
        try { volatile auto v = bin ? sizeOnDiskBinary(num, static_cast<eclArrType>(t), es) : sizeOnDiskFormatted(num, static_cast<eclArrType>(t), es); (void)v; }
        catch (const std::exception&) { _exit(0); }
        _exit(0);
    }
    int st = 0; waitpid(pid, &st, 0);
    const bool crashed = WIFSIGNALED(st);
    return r.verdict(!crashed, std::string(bin ? "sizeOnDiskBinary" : "sizeOnDiskFormatted") + "(num=" + std::to_string(num) + ", type=" + std::to_string(t)
                     + ", elementSize=" + std::to_string(es) + ")" + (crashed ? " killed by signal " + std::to_string(WTERMSIG(st)) : " returned or threw"));
}
