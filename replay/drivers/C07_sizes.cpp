// REPLAY_SOURCES: opm/io/eclipse/EclUtil.cpp
#include "replay.hpp"
#include <opm/io/eclipse/EclUtil.hpp>
#include <opm/io/eclipse/EclIOdata.hpp>
#include <sstream>
using namespace Opm::EclIO;
// published layout (independent of EclIOdata.hpp): element size, elements per sub-block, formatted columns / width
static long elsz(int t) { return (t == DOUB || t == CHAR || t == C0NN) ? 8 : 4; }
static long blk(int t) { return (t == CHAR || t == C0NN) ? 105 : 1000; }
static long fcols(int t) { return t == INTE ? 6 : t == REAL ? 4 : t == DOUB ? 3 : t == LOGI ? 25 : 7; }
static long fwidth(int t) { return t == INTE ? 12 : t == REAL ? 17 : t == DOUB ? 23 : t == LOGI ? 3 : 11; }
static long cdiv(long a, long b) { return (a + b - 1) / b; }
int main(int argc, char** argv)
{
    Replay r(argc, argv);
    std::ostringstream w;
    if (r.is("sizeOnDiskBinary/") || r.is("sizeOnDiskFormatted/")) {
        const long num = r.integer("num"); const int t = (int)r.integer("arrType"); const int es = (int)r.integer("elementSize");
        const bool bin = r.is("sizeOnDiskBinary/");
        bool thrown = false; unsigned long got = 0;
        try { got = bin ? sizeOnDiskBinary(num, static_cast<eclArrType>(t), es) : sizeOnDiskFormatted(num, static_cast<eclArrType>(t), es); }
        catch (const std::exception&) { thrown = true; }
        long want;
        if (bin) want = num * (t == C0NN ? es : elsz(t)) + 8 * cdiv(num, blk(t));
        else { const long wd = t == C0NN ? es + 3 : fwidth(t), c = t == C0NN ? 80 / (es + 3) : fcols(t), B = blk(t);
               want = num * wd + (num / B) * cdiv(B, c) + cdiv(num % B, c); }
        w << (bin ? "sizeOnDiskBinary" : "sizeOnDiskFormatted") << "(num=" << num << ", type=" << t << ", elementSize=" << es << ") = "
          << (thrown ? std::string("exception") : std::to_string(got)) << ", published layout: " << want;
        if (r.is("nothrow")) return r.verdict(t == MESS || !thrown, w.str());
        if (r.is("mess")) return r.verdict(t != MESS || (thrown == (num > 0) && (thrown || got == 0)), w.str());
        return r.verdict(t == MESS || (!thrown && (long)got == want), w.str());
    }
    if (r.is("bsdb/") || r.is("bsdf/")) {
        const int t = (int)r.integer("arrType"); bool thrown = false, ok = true;
        try {
            if (r.is("bsdb/")) { auto x = block_size_data_binary(static_cast<eclArrType>(t)); ok = std::get<0>(x) == elsz(t) && std::get<1>(x) == blk(t) * elsz(t); }
            else { auto x = block_size_data_formatted(static_cast<eclArrType>(t)); ok = std::get<0>(x) == blk(t) && std::get<1>(x) == fcols(t) && std::get<2>(x) == fwidth(t); }
        } catch (const std::exception&) { thrown = true; }
        return r.verdict(thrown == (t == MESS) && (thrown || ok), "block size table for type " + std::to_string(t));
    }
    std::cerr << "no native replay for this obligation\n";
    return 3;
}
