// REPLAY_SOURCES: opm/input/eclipse/Deck/DeckItem.cpp
// REPLAY_SEARCH
// Native replay for C19/itemwrite: integer items with every pattern of explicit / defaulted entries up to length 6 are
// written with the real DeckItem::write through the real DeckOutput; the text is decoded (k* = k defaults) and must give
// back the same entries in the same positions (trailing defaults may be dropped by end_record).
#include "replay.hpp"
#include <opm/input/eclipse/Deck/DeckItem.hpp>
#include <opm/input/eclipse/Deck/DeckOutput.hpp>
#include <opm/input/eclipse/Deck/Deck.hpp>
#include <opm/input/eclipse/Deck/DeckKeyword.hpp>
#include <opm/input/eclipse/Deck/DeckRecord.hpp>
#include <opm/input/eclipse/Parser/Parser.hpp>
#include <sstream>
#include <vector>
// the lemma open_ended_item_keeps_its_trailing_defaults: a data array whose last entries are defaulted is parsed, printed and
// parsed again through the real parser: it must keep its number of entries
static int openEnded(const Replay& r)
{
    try {
        const auto d1 = Opm::Parser{}.parseString("RUNSPEC\nDIMENS\n 3 3 1 /\nGRID\nMULTPV\n 4*2.0 5* /\n");
        std::ostringstream os; os << d1;
        const auto d2 = Opm::Parser{}.parseString(os.str());
        const auto n1 = d1["MULTPV"].back().getRecord(0).getItem(0).data_size(), n2 = d2["MULTPV"].back().getRecord(0).getItem(0).data_size();
        return r.verdict(n1 == n2, "MULTPV 4*2.0 5* / has " + std::to_string(n1) + " entries, after print and re-parse " + std::to_string(n2) + " (the trailing defaults are dropped when the record ends)");
    } catch (const std::exception& e) { return r.verdict(false, std::string("print / re-parse of the data array raises: ") + std::string(e.what()).substr(0, 140)); }
}
int main(int argc, char** argv)
{
    Replay r(argc, argv);
    if (r.is("open_ended_item")) return openEnded(r);
    std::ostringstream w;
    for (int len = 1; len <= 6; ++len)
        for (unsigned mask = 0; mask < (1u << len); ++mask) {
            Opm::DeckItem item("ITEM", int());
            for (int i = 0; i < len; ++i) { if ((mask >> i) & 1u) item.push_backDummyDefault<int>(); else item.push_back(100 + i); }
            std::ostringstream os;
            { Opm::DeckOutput out(os, 10); out.start_record(); item.write(out); out.end_record(); }
            std::istringstream is(os.str()); std::string tok; std::vector<int> got;       // -1 = default
            while (is >> tok) {
                if (tok == "/") break;
                const auto star = tok.find('*');
                if (star != std::string::npos) { for (int k = std::stoi(tok.substr(0, star)); k > 0; --k) got.push_back(-1); }
                else got.push_back(std::stoi(tok));
            }
            bool ok = got.size() <= std::size_t(len);
            for (int i = 0; ok && i < len; ++i) {
                const int e = ((mask >> i) & 1u) ? -1 : 100 + i;
                ok = std::size_t(i) < got.size() ? got[i] == e : e == -1;       // only trailing defaults may be missing
            }
            if (!ok) {
                w << "item with entries ";
                for (int i = 0; i < len; ++i) w << (((mask >> i) & 1u) ? std::string("*") : std::to_string(100 + i)) << ' ';
                w << "is written as \"" << os.str() << "\"";
                return r.verdict(false, w.str());
            }
        }
    return r.verdict(true, "every explicit / default pattern up to 6 entries decodes to the same entries (bounded native search)");
}
