// REPLAY_SOURCES: opm/input/eclipse/Units/Dimension.cpp
// REPLAY_SEARCH
// Native replay for C02/dimension: Dimension(factor, offset) for several factors / offsets: raw -> SI is value*factor +
// offset, SI -> raw its inverse, and the round trips are the identity (to rounding).
#include "replay.hpp"
#include <opm/input/eclipse/Units/Dimension.hpp>
#include <sstream>
int main(int argc, char** argv)
{
    Replay r(argc, argv);
    std::ostringstream w;
    for (double f : {1.0, 0.3048, 6894.757293168361, 1e-5, 9.869232667160128e-16})
        for (double o : {0.0, 273.15, 255.37222222222223})
            for (double x : {-40.0, 0.0, 1.0, 14.7, 3500.0}) {
                const Opm::Dimension d(f, o);
                const double si = d.convertRawToSi(x), raw = d.convertSiToRaw(x);
                if (!Replay::close(si, x * f + o, o + 1) || !Replay::close(raw, (x - o) / f, 1.0) || std::fabs(d.convertSiToRaw(si) - x) > 1e-9 * std::max(std::fabs(x), 1.0) + 8 * 2.3e-16 * (std::fabs(o) + std::fabs(x * f)) / f /* cancellation in (si - o) / f */ || !Replay::close(d.convertRawToSi(raw), x, o + 1)) {
                    w << "Dimension(factor " << f << ", offset " << o << ") at " << x << ": rawToSi = " << si << " (affine map gives " << x * f + o << "), siToRaw = " << raw
                      << " (inverse gives " << (x - o) / f << "), round trip " << d.convertSiToRaw(si);
                    return r.verdict(false, w.str());
                }
            }
    return r.verdict(true, "Dimension conversions are the affine map and its inverse on all test values (bounded native search)");
}
