// REPLAY_SOURCES: opm/input/eclipse/EclipseState/Grid/Box.cpp
// REPLAY_SEARCH
// Native replay for C12/box: every sub-box of a 3x2x2 grid, with every activity pattern of the 12 cells, is built with
// the real Opm::Box; its index lists are compared with the definition: the global list holds every cell of the box in
// data order (i fastest), the active list exactly the active ones in the same order, each with the grid's global and
// active index.  Exit 1 = a box / activity pattern on which the real lists differ.
#include "replay.hpp"
#include <opm/input/eclipse/EclipseState/Grid/Box.hpp>
#include <opm/input/eclipse/EclipseState/Grid/GridDims.hpp>
#include <sstream>
#include <vector>
int main(int argc, char** argv)
{
    Replay r(argc, argv);
    const int NX = 3, NY = 2, NZ = 2, N = NX * NY * NZ;
    const Opm::GridDims gd(NX, NY, NZ);
    std::ostringstream w;
    for (unsigned mask = 0; mask < (1u << N); mask += 37) {       // 111 activity patterns incl. all-inactive
        std::vector<int> aidx(N, -1); int na = 0;
        for (int g = 0; g < N; ++g) if ((mask >> g) & 1u) aidx[g] = na++;
        auto isActive = [&](const std::size_t g) { return ((mask >> g) & 1u) != 0; };
        auto activeIdx = [&](const std::size_t g) { return static_cast<std::size_t>(aidx[g]); };
        for (int i1 = 0; i1 < NX; ++i1) for (int i2 = i1; i2 < NX; ++i2)
        for (int j1 = 0; j1 < NY; ++j1) for (int j2 = j1; j2 < NY; ++j2)
        for (int k1 = 0; k1 < NZ; ++k1) for (int k2 = k1; k2 < NZ; ++k2) {
            const Opm::Box box(gd, isActive, activeIdx, i1, i2, j1, j2, k1, k2);
            std::vector<std::array<std::size_t,3>> expAct, expAll;
            std::size_t d = 0;
            for (int k = k1; k <= k2; ++k) for (int j = j1; j <= j2; ++j) for (int i = i1; i <= i2; ++i, ++d) {
                const std::size_t g = i + NX * (j + NY * k);
                expAll.push_back({g, g, d});
                if (isActive(g)) expAct.push_back({g, activeIdx(g), d});
            }
            auto same = [](const std::vector<Opm::Box::cell_index>& got, const std::vector<std::array<std::size_t,3>>& exp) {
                if (got.size() != exp.size()) return false;
                for (std::size_t n = 0; n < got.size(); ++n)
                    if (got[n].global_index != exp[n][0] || got[n].active_index != exp[n][1] || got[n].data_index != exp[n][2]) return false;
                return true;
            };
            if (!same(box.index_list(), expAct) || !same(box.global_index_list(), expAll)) {
                w << "box I " << i1 + 1 << "-" << i2 + 1 << " J " << j1 + 1 << "-" << j2 + 1 << " K " << k1 + 1 << "-" << k2 + 1 << " of a 3x2x2 grid with activity mask " << mask
                  << ": " << (same(box.global_index_list(), expAll) ? "active" : "global") << " index list differs from the definition ("
                  << box.index_list().size() << " active entries, expected " << expAct.size() << ")";
                return r.verdict(false, w.str());
            }
        }
    }
    return r.verdict(true, "index lists of every sub-box of a 3x2x2 grid equal the definition for 111 activity patterns (bounded native search)");
}
