// REPLAY_SOURCES: opm/input/eclipse/Deck/DeckKeyword.cpp
// REPLAY_SEARCH
// Native replay for C19/keywrite: a deck with one keyword of every shape the framing depends on -- a data array (split
// over lines), VFPPROD and TSTEP (numeric, split), a slash-terminated list, a fixed-size keyword, and the raw-string
// keyword UDQ with DEFINE records of more than 7 tokens that contain division signs -- is parsed, printed with the real
// DeckKeyword::write, parsed again and compared keyword by keyword (name, number of records, items, values, defaults).
// Exit 1 = the printed text does not parse back to the same Deck.
#include "replay.hpp"
#include <opm/input/eclipse/Deck/Deck.hpp>
#include <opm/input/eclipse/Deck/DeckKeyword.hpp>
#include <opm/input/eclipse/Parser/Parser.hpp>
#include <sstream>
int main(int argc, char** argv)
{
    Replay r(argc, argv);
    const std::string text =
        "RUNSPEC\nDIMENS\n 3 3 2 /\nOIL\nWATER\nGAS\nGRID\nPORO\n 18*0.25 /\nPERMX\n 1 2 3 4 5 6 7 8 9 10 11 12 13 14 15 16 17 18 /\n"
        "EQUALS\n 'PERMY' 100 /\n 'PERMZ' 10 1 3 1 3 1 1 /\n/\nSCHEDULE\n"
        "VFPPROD\n 1 2000 'LIQ' 'WCT' 'GOR' /\n 100 200 300 400 500 600 700 800 900 /\n 10 /\n 0 /\n 0 /\n 0 /\n 1 1 1 1 50 60 70 80 90 100 110 120 130 /\n"
        "UDQ\n ASSIGN FU_A 1.5 /\n DEFINE FU_WCUT ( WWPR P1 + WWPR P2 ) / ( WOPR P1 + WOPR P2 + WWPR P1 + WWPR P2 ) /\n"
        " DEFINE WU_X WOPR '*' / ( WOPR '*' + WWPR '*' + 1 ) * 100 / 2 - 1 /\n UNITS FU_WCUT SM3/SM3 /\n/\n"
        "TSTEP\n 1 2 3 4 5 6 7 8 9 10 11 12 /\nEND\n";
    std::ostringstream w;
    try {
        const auto d1 = Opm::Parser{}.parseString(text);
        std::ostringstream os; os << d1;
        Opm::Deck d2;
        try { d2 = Opm::Parser{}.parseString(os.str()); }
        catch (const std::exception& e) { return r.verdict(false, std::string("the printed deck does not parse: ") + std::string(e.what()).substr(0, 160)); }
        if (d1.size() != d2.size())
            return r.verdict(false, "the printed deck parses to " + std::to_string(d2.size()) + " keywords, the original has " + std::to_string(d1.size()));
        for (std::size_t i = 0; i < d1.size(); ++i) {
            if (d1[i].name() != d2[i].name() || d1[i].size() != d2[i].size() || !(d1[i] == d2[i])) {
                w << "keyword " << d1[i].name() << " (" << d1[i].size() << " records) is read back as " << d2[i].name() << " (" << d2[i].size() << " records"
                  << (d1[i].size() == d2[i].size() ? ", different items" : "") << ")";
                return r.verdict(false, w.str());
            }
        }
    } catch (const std::exception& e) { return r.verdict(false, std::string("the reference deck does not parse: ") + std::string(e.what()).substr(0, 160)); }
    return r.verdict(true, "every keyword of the test deck (data arrays, VFPPROD, TSTEP, lists, UDQ with divisions) is read back unchanged (bounded native search)");
}
