// REPLAY_SOURCES: opm/common/utility/MemPacker.cpp
// Native replay for C11/mempack: the verifier's bitset value is packed and unpacked through the real
// Opm::Serialization::detail::Packing<false,std::bitset<N>> and compared.
#include "replay.hpp"
#include <opm/common/utility/MemPacker.hpp>
#include <bitset>
#include <string>
#include <sstream>
#include <vector>
template <std::size_t N>
static int run(const Replay& r, unsigned long long bits)
{
    using P = Opm::Serialization::detail::Packing<false, std::bitset<N>>;
    const std::bitset<N> a(bits);
    std::vector<char> buf(64, 0);
    std::size_t p = 3, q = 3;
    const auto sz = P::packSize(a);
    P::pack(a, buf, p);
    std::bitset<N> b;
    P::unpack(b, buf, q);
    std::ostringstream w;
    w << "bitset<" << N << "> value 0x" << std::hex << a.to_ullong() << " -> pack/unpack -> 0x" << b.to_ullong() << std::dec
      << "; packSize " << sz << ", pack moved the position by " << (p - 3) << ", unpack by " << (q - 3);
    return r.verdict(a == b && (p - 3) == sz && q == p, w.str());
}
int main(int argc, char** argv)
{
    Replay r(argc, argv);
    const unsigned long long bits = r.has("a.bits") ? (unsigned long long) r.num("a.bits") : (r.has("verif_in_data.bits") ? (unsigned long long) r.num("verif_in_data.bits") : ~0ull);
    if (r.is("str_")) {
        using P = Opm::Serialization::detail::Packing<false, std::string>;
        std::ostringstream w; bool ok = true;
        for (const std::string& a : { std::string("a"), std::string("hello world"), std::string(300, 'x') + "end", std::string("nul\0inside", 10), std::string() }) {
            std::vector<char> buf(a.size() + 64, 0x55);
            std::size_t p = 5, q = 5;
            const auto sz = P::packSize(a);
            P::pack(a, buf, p);
            std::string b = "previous content";
            P::unpack(b, buf, q);
            if (b != a || p - 5 != sz || q != p) {
                ok = false;
                w << "string of " << a.size() << " characters -> pack/unpack -> " << b.size() << " characters" << (b == a ? "" : " (content differs)")
                  << "; packSize " << sz << ", pack moved the position by " << p - 5 << ", unpack by " << q - 5;
                break;
            }
        }
        if (ok) w << "strings of several lengths round-trip and consume exactly packSize bytes";
        return r.verdict(ok, w.str());
    }
    if (r.is("17")) return run<17>(r, bits);
    if (r.is("10")) return run<10>(r, bits);
    if (r.is("4"))  return run<4>(r, bits);
    if (r.is("3"))  return run<3>(r, bits);
    std::cerr << "no native replay for this obligation\n";
    return 3;
}
