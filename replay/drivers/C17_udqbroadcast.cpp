// REPLAY_SOURCES: opm/input/eclipse/Schedule/UDQ/UDQSet.cpp
// REPLAY_SEARCH
// Native replay for C17/udqbroadcast: the binary operators + - * / on (UDQSet, UDQSet) for every pairing of
//   a scalar / field set with a value from { -2, 0, 0.5, 3 }  and  a well / group set of 1..3 elements with values from
//   { undefined, -2, 0, 0.5, 3 }  (scalar on the left and on the right), and of two well sets of equal size,
// compared with the documented semantics: element-wise with the scalar broadcast to every element, an element of the
// result is defined exactly when both operands are defined there and the value is finite (x / 0 is undefined), and
// 0 / x is 0.  Well (+) group and sets of different sizes must be rejected.  Exit 1 = a pair on which the real code
// differs (printed).
#include "replay.hpp"
#include <opm/input/eclipse/Schedule/UDQ/UDQSet.hpp>
#include <opm/common/OpmLog/KeywordLocation.hpp>
#include <opm/common/utility/TimeService.hpp>
#include <opm/input/eclipse/EclipseState/Grid/RegionSetMatcher.hpp>
#include <opm/input/eclipse/Schedule/MSW/SegmentMatcher.hpp>
#include <opm/input/eclipse/Schedule/SummaryState.hpp>
#include <opm/input/eclipse/Schedule/UDQ/UDQConfig.hpp>
#include <opm/input/eclipse/Schedule/UDQ/UDQContext.hpp>
#include <opm/input/eclipse/Schedule/UDQ/UDQDefine.hpp>
#include <opm/input/eclipse/Schedule/UDQ/UDQFunctionTable.hpp>
#include <opm/input/eclipse/Schedule/UDQ/UDQParams.hpp>
#include <opm/input/eclipse/Schedule/UDQ/UDQState.hpp>
#include <opm/input/eclipse/Schedule/UDQ/UDT.hpp>
#include <opm/input/eclipse/Schedule/Well/NameOrder.hpp>
#include <opm/input/eclipse/Schedule/Well/WellMatcher.hpp>
#include <cmath>
#include <optional>
#include <sstream>
#include <vector>
using Opm::UDQSet;
using Opt = std::optional<double>;
static Opt apply(int op, const Opt& a, const Opt& b)
{
    if (!a || !b) return std::nullopt;
    double v = op == 0 ? *a + *b : op == 1 ? *a - *b : op == 2 ? *a * *b : *a / *b;
    if (!std::isfinite(v)) return std::nullopt;
    return v;
}
static UDQSet call(int op, const UDQSet& a, const UDQSet& b) { return op == 0 ? a + b : op == 1 ? a - b : op == 2 ? a * b : a / b; }
static std::string show(const std::vector<Opt>& v) { std::ostringstream o; o << "("; for (std::size_t i = 0; i < v.size(); ++i) { if (i) o << ", "; if (v[i]) o << *v[i]; else o << "undefined"; } o << ")"; return o.str(); }
// the lemma undefined_reduction_then_broadcast: DEFINE WUY SUM(WUX) + WOPR with WUX undefined for every well, through the
// real UDQDefine::eval; exit 1 = the evaluation raises instead of giving an undefined value per well
static int undefinedReduction(const Replay& r)
{
    using namespace Opm;
    KeywordLocation location; UDQParams udqp; UDQFunctionTable udqft;
    SummaryState st(TimeService::now(), udqp.undefinedValue());
    UDQState udq_state(udqp.undefinedValue());
    WellMatcher wm(NameOrder({"P1", "P2"}));
    UDQContext context(udqft, wm, {}, UDQContext::MatcherFactories{}, st, udq_state);
    st.update_well_var("P1", "WOPR", 4); st.update_well_var("P2", "WOPR", 5);
    st.update_well_var("OTHER", "WUX", 1);            // WUX is a known quantity, undefined for P1 and P2
    for (const char* fn : { "SUM", "MAX", "AVEA" }) {
        try {
            UDQDefine def(udqp, "WUY", 0, location, { fn, "(", "WUX", ")", "+", "WOPR" });
            const auto res = def.eval(context);
            for (std::size_t i = 0; i < res.size(); ++i)
                if (res[i].defined()) return r.verdict(false, std::string(fn) + "(WUX) + WOPR with WUX undefined everywhere is DEFINED for a well");
        } catch (const std::exception& e) {
            std::string what = e.what();
            try { std::rethrow_if_nested(e); } catch (const std::exception& e2) { what = e2.what(); }
            return r.verdict(false, std::string("DEFINE WUY ") + fn + "(WUX) + WOPR, WUX undefined for every well: the evaluation raises \"" + what.substr(0, 140) + "\" instead of giving undefined values");
        }
    }
    return r.verdict(true, "reductions of all-undefined sets combine with well sets without raising");
}
int main(int argc, char** argv)
{
    Replay r(argc, argv);
    if (r.is("undefined_reduction")) return undefinedReduction(r);
    const std::vector<Opt> vals = { std::nullopt, -2.0, 0.0, 0.5, 3.0 };
    const char* opname[] = { "+", "-", "*", "/" };
    std::ostringstream w;
    for (std::size_t n = 1; n <= 3; ++n) {
        std::vector<std::string> names; for (std::size_t i = 0; i < n; ++i) names.push_back("W" + std::to_string(i + 1));
        std::size_t total = 1; for (std::size_t i = 0; i < n; ++i) total *= vals.size();
        for (std::size_t code = 0; code < total; ++code) {
            std::vector<Opt> a(n);
            for (std::size_t i = 0, c = code; i < n; ++i, c /= vals.size()) a[i] = vals[c % vals.size()];
            for (int group = 0; group <= 1; ++group) {
                UDQSet set = group ? UDQSet::groups("G", names) : UDQSet::wells("W", names);
                for (std::size_t i = 0; i < n; ++i) if (a[i]) set.assign(i, *a[i]);
                // scalar / field operand with a defined value, on either side
                for (std::size_t sv = 1; sv < vals.size(); ++sv) for (int field = 0; field <= 1; ++field) for (int op = 0; op < 4; ++op) for (int left = 0; left <= 1; ++left) {
                    const UDQSet sc = field ? UDQSet::field("F", *vals[sv]) : UDQSet::scalar("S", *vals[sv]);
                    std::vector<Opt> expect(n);
                    for (std::size_t i = 0; i < n; ++i) expect[i] = left ? apply(op, vals[sv], a[i]) : apply(op, a[i], vals[sv]);
                    bool ok = true; std::vector<Opt> got(n); bool thrown = false;
                    try {
                        const UDQSet res = left ? call(op, sc, set) : call(op, set, sc);
                        ok = res.size() == n;
                        for (std::size_t i = 0; ok && i < n; ++i) { if (res[i].defined()) got[i] = res[i].get(); ok = got[i].has_value() == expect[i].has_value() && (!expect[i] || Replay::close(*got[i], *expect[i], 1.0)); }
                    } catch (const std::exception&) { thrown = true; ok = false; }
                    if (!ok) {
                        w << (left ? std::to_string(*vals[sv]) : show(a)) << " " << opname[op] << " " << (left ? show(a) : std::to_string(*vals[sv]))
                          << " (" << (field ? "field" : "scalar") << " value and a " << (group ? "group" : "well") << " set): " << (thrown ? std::string("raises") : "gives " + show(got)) << ", expected " << show(expect);
                        return r.verdict(false, w.str());
                    }
                }
                // a second set of the same kind and size
                if (group == 0) for (std::size_t code2 = 0; code2 < total; code2 += 3) for (int op = 0; op < 4; ++op) {
                    std::vector<Opt> b(n), expect(n), got(n);
                    UDQSet set2 = UDQSet::wells("V", names);
                    for (std::size_t i = 0, c = code2; i < n; ++i, c /= vals.size()) { b[i] = vals[c % vals.size()]; if (b[i]) set2.assign(i, *b[i]); }
                    for (std::size_t i = 0; i < n; ++i) expect[i] = apply(op, a[i], b[i]);
                    bool ok = true, thrown = false;
                    try {
                        const UDQSet res = call(op, set, set2);
                        ok = res.size() == n;
                        for (std::size_t i = 0; ok && i < n; ++i) { if (res[i].defined()) got[i] = res[i].get(); ok = got[i].has_value() == expect[i].has_value() && (!expect[i] || Replay::close(*got[i], *expect[i], 1.0)); }
                    } catch (const std::exception&) { thrown = true; ok = false; }
                    if (!ok) { w << show(a) << " " << opname[op] << " " << show(b) << " (two well sets): " << (thrown ? std::string("raises") : "gives " + show(got)) << ", expected " << show(expect); return r.verdict(false, w.str()); }
                }
            }
        }
        // shapes that must be rejected: well (+) group, and two well sets of different sizes
        std::vector<std::string> more = names; more.push_back("WX");
        for (int op = 0; op < 4; ++op) {
            bool t1 = false, t2 = false;
            try { call(op, UDQSet::wells("W", names, 1.0), UDQSet::groups("G", names, 1.0)); } catch (const std::exception&) { t1 = true; }
            try { call(op, UDQSet::wells("W", names, 1.0), UDQSet::wells("V", more, 1.0)); } catch (const std::exception&) { t2 = true; }
            if (!t1 || !t2) { w << "well set " << opname[op] << (t1 ? " a well set of another size" : " group set") << " is not rejected"; return r.verdict(false, w.str()); }
        }
    }
    return r.verdict(true, "set (+) set, scalar (+) set and set (+) scalar match the element-wise semantics with broadcasting on all test operands (bounded native search)");
}
