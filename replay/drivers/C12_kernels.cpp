// REPLAY_SEARCH
// Native replay for C12/kernels: the scalar kernels behind EQUALS / MULTIPLY / ADD / MINVALUE / MAXVALUE (internal
// linkage: FieldProps.cpp is compiled into this driver from /repo's current source) are run on a 4-cell array for every
// status pattern (value present / uninitialised), every index list without repetition and three operand values, and
// compared with the definition: a listed, defined cell becomes op(old, value); other cells and all statuses (except
// EQUALS, which defines the cell) are unchanged; a listed undefined cell makes the operation raise.
#include <opm/input/eclipse/EclipseState/Grid/FieldProps.cpp>
#include "replay.hpp"
#include <sstream>
using Opm::value::status;
int main(int argc, char** argv)
{
    Replay r(argc, argv);
    std::ostringstream w;
    const Opm::KeywordLocation loc("KW", "file", 1);
    const int N = 4;
    for (unsigned def = 0; def < (1u << N); ++def)
        for (unsigned listed = 0; listed < (1u << N); ++listed)
            for (double v : {-1.5, 0.0, 2.0})
                for (int op = 0; op < 5; ++op) {
                    std::vector<double> data(N), d0; std::vector<status> st(N), s0;
                    for (int i = 0; i < N; ++i) { data[i] = 1.25 * i - 2.0; st[i] = ((def >> i) & 1u) ? status::deck_value : status::uninitialized; }
                    d0 = data; s0 = st;
                    std::vector<Opm::Box::cell_index> il;
                    for (int i = N - 1; i >= 0; --i) if ((listed >> i) & 1u) il.emplace_back(std::size_t(10 + i), std::size_t(i), il.size());
                    bool thrown = false;
                    try {
                        switch (op) {
                        case 0: Opm::assign_scalar(data, st, v, il); break;
                        case 1: Opm::multiply_scalar(loc, "A", data, st, v, il); break;
                        case 2: Opm::add_scalar(loc, "A", data, st, v, il); break;
                        case 3: Opm::min_value(loc, "A", data, st, v, il); break;
                        default: Opm::max_value(loc, "A", data, st, v, il);
                        }
                    } catch (const std::exception&) { thrown = true; }
                    const bool mustThrow = op != 0 && (listed & ~def) != 0;
                    bool ok = thrown == mustThrow;
                    for (int i = 0; ok && i < N; ++i) {
                        const bool L = (listed >> i) & 1u, D = (def >> i) & 1u;
                        double e = d0[i]; status es = s0[i];
                        if (L && op == 0) { e = v; es = status::deck_value; }
                        else if (L && D) e = op == 1 ? d0[i] * v : op == 2 ? d0[i] + v : op == 3 ? std::max(d0[i], v) : std::min(d0[i], v);
                        ok = data[i] == e && st[i] == es;
                    }
                    if (!ok) {
                        const char* names[] = { "assign_scalar", "multiply_scalar", "add_scalar", "min_value", "max_value" };
                        w << names[op] << " with value " << v << ", defined-cell mask " << def << ", listed-cell mask " << listed << ": "
                          << (thrown != mustThrow ? (thrown ? "raises although every listed cell is defined" : "does not raise for a listed undefined cell") : "cell values / statuses differ from the definition");
                        return r.verdict(false, w.str());
                    }
                }
    return r.verdict(true, "all five kernels match their definitions on every status pattern / index list of a 4-cell array (bounded native search)");
}
