// REPLAY_SEARCH
// Native replay for C20/rawrecord (and C01): the record tokeniser splitSingleRecordString (internal linkage: RawRecord.cpp
// is compiled into this driver from /repo's current source) is run on every string of length <= 7 over the alphabet
// { a, b, space, ', / } taken as a VIEW into a larger buffer (so that a token running past the record is visible), in
// a child process with a time and memory limit (a tokeniser that does not terminate is a failure, not a hang of the
// check).  Every token must lie inside the record and the token list must equal the reference: maximal runs of
// non-separators, or a quoted string up to and including its closing quote (up to the end of the record if it has none).
#include <opm/input/eclipse/Parser/raw/RawRecord.cpp>
#include "replay.hpp"
#include <sstream>
#include <sys/resource.h>
#include <sys/wait.h>
#include <unistd.h>
namespace {
bool sep(char c) { const int x = c & 0x7f; return x == 1 || x == ' ' || x == ',' || x == '\r' || x == '\n' || x == '\t' || x == '\v' || x == '\f'; }
std::vector<std::string> reference(const std::string& s)
{
    std::vector<std::string> t; std::size_t i = 0;
    while (i < s.size()) {
        if (sep(s[i])) { ++i; continue; }
        std::size_t j;
        if (s[i] == '\'') { j = s.find('\'', i + 1); j = (j == std::string::npos) ? s.size() : j + 1; }
        else { j = i; while (j < s.size() && !sep(s[j])) ++j; }
        t.push_back(s.substr(i, j - i)); i = j;
    }
    return t;
}
int search(std::string& what)
{
    const std::string alpha = "ab '/";
    std::vector<std::string> level{ "" };
    for (int len = 0; len <= 7; ++len) {
        for (const auto& s : level) {
            const std::string buffer = s + "/ZZ";                       // the record is a view of the first s.size() bytes
            const std::string_view record(buffer.data(), s.size());
            const auto toks = Opm::splitSingleRecordString(record);
            const auto ref = reference(s);
            bool ok = toks.size() == ref.size();
            std::size_t k = 0;
            for (const auto& t : toks) {
                const bool inside = t.data() >= record.data() && t.data() + t.size() <= record.data() + record.size();
                if (!inside) { what = "record \"" + s + "\": token " + std::to_string(k + 1) + " runs past the end of the record (it has " + std::to_string(t.size()) + " characters, " + std::to_string(record.data() + record.size() - t.data()) + " are left)"; return 1; }
                if (ok && std::string(t) != ref[k]) ok = false;
                ++k;
            }
            if (!ok) { what = "record \"" + s + "\": " + std::to_string(toks.size()) + " tokens, the reference tokeniser gives " + std::to_string(ref.size()) + " (or different text)"; return 1; }
        }
        std::vector<std::string> next;
        for (const auto& s : level) for (char c : alpha) next.push_back(s + c);
        level.swap(next);
    }
    return 0;
}
}
int main(int argc, char** argv)
{
    Replay r(argc, argv);
    int fd[2]; if (pipe(fd) != 0) return 3;
    const pid_t pid = fork();
    if (pid == 0) {
        close(fd[0]);
        struct rlimit lim { 1500ul << 20, 1500ul << 20 }; setrlimit(RLIMIT_AS, &lim);
        alarm(60);
        std::string what; int rc;
        try { rc = search(what); } catch (const std::bad_alloc&) { what = "the tokeniser exhausts memory (it does not terminate)"; rc = 1; }
        (void)!write(fd[1], what.data(), what.size());
        _exit(rc);
    }
    close(fd[1]);
    std::string what; char buf[512]; ssize_t n;
    while ((n = read(fd[0], buf, sizeof buf)) > 0) what.append(buf, n);
    int st = 0; waitpid(pid, &st, 0);
    if (WIFSIGNALED(st)) return r.verdict(false, std::string("the tokeniser was killed by signal ") + std::to_string(WTERMSIG(st)) + " (time / memory limit: it does not terminate, or crashes)");
    if (WEXITSTATUS(st) != 0) return r.verdict(false, what.empty() ? "the tokeniser fails" : what);
    return r.verdict(true, "every token lies inside its record and the token lists equal the reference on every string of length <= 7 (bounded native search)");
}
