// REPLAY_SOURCES: opm/input/eclipse/Schedule/UDQ/UDQFunction.cpp opm/input/eclipse/Schedule/UDQ/UDQSet.cpp
// REPLAY_SEARCH
// Native replay for C17/udqreduce and C17/udqdefined: every set of 0..4 elements with values from
// { undefined, -3, -0.5, 0.25, 2 } is passed to the real reductions and compared with the definitions over the DEFINED
// elements: MAX / MIN (bound and attained), SUM, PROD, AVEA, NORM1, NORM2, NORMI, and AVEG / AVEH where all defined
// elements are positive; the result is the empty set exactly when no element is defined.  defined_values() must list
// the defined elements in order.  (NORM* / AVEG / AVEH are not under contract; they are searched here all the same.)
#include "replay.hpp"
#include <opm/input/eclipse/Schedule/UDQ/UDQFunction.hpp>
#include <opm/input/eclipse/Schedule/UDQ/UDQSet.hpp>
#include <cmath>
#include <optional>
#include <sstream>
#include <vector>
using Opm::UDQSet; using F = Opm::UDQScalarFunction;
int main(int argc, char** argv)
{
    Replay r(argc, argv);
    const std::vector<std::optional<double>> vals = { std::nullopt, -3.0, -0.5, 0.25, 2.0 };
    std::ostringstream w;
    for (std::size_t n = 0; n <= 4; ++n) {
        std::size_t total = 1; for (std::size_t i = 0; i < n; ++i) total *= vals.size();
        for (std::size_t code = 0; code < total; ++code) {
            UDQSet arg("X", n);
            std::vector<double> d;
            std::ostringstream desc;
            for (std::size_t i = 0, c = code; i < n; ++i, c /= vals.size()) {
                const auto& v = vals[c % vals.size()];
                if (v) { arg.assign(i, *v); d.push_back(*v); }
                desc << (i ? ", " : "") << (v ? std::to_string(*v) : std::string("undefined"));
            }
            bool dvok = false;
            try { dvok = arg.defined_values() == d; } catch (const std::exception&) { }
            if (!dvok)
                return r.verdict(false, "defined_values() of the set (" + desc.str() + ") is not the list of its defined elements in order (or throws)");
            bool allpos = true; for (double x : d) allpos = allpos && x > 0;
            double mx = -1e300, mn = 1e300, sum = 0, prod = 1, n1 = 0, n2 = 0, ni = 0, lg = 0, hs = 0;
            for (double x : d) { mx = std::max(mx, x); mn = std::min(mn, x); sum += x; prod *= x; n1 += std::fabs(x); n2 += x * x; ni = std::max(ni, std::fabs(x)); if (allpos) { lg += std::log(x); hs += 1 / x; } }
            struct { const char* name; UDQSet (*f)(const UDQSet&); double expect; bool use; } fns[] = {
                { "MAX", &F::UDQ_MAX, mx, true }, { "MIN", &F::UDQ_MIN, mn, true }, { "SUM", &F::SUM, sum, true }, { "PROD", &F::PROD, prod, true },
                { "AVEA", &F::AVEA, d.empty() ? 0 : sum / d.size(), true }, { "NORM1", &F::NORM1, n1, true }, { "NORM2", &F::NORM2, std::sqrt(n2), true },
                { "NORMI", &F::NORMI, ni, true }, { "AVEG", &F::AVEG, d.empty() ? 0 : std::exp(lg / d.size()), allpos }, { "AVEH", &F::AVEH, d.empty() ? 0 : d.size() / hs, allpos } };
            for (const auto& fn : fns) {
                if (!fn.use) continue;
                bool thrown = false; UDQSet res("R", 0);
                try { res = fn.f(arg); } catch (const std::exception&) { thrown = true; }
                bool ok = !thrown;
                if (ok && d.empty()) ok = res.size() == 0 || (res.size() == 1 && !res[0].defined());
                if (ok && !d.empty()) ok = res.size() == 1 && res[0].defined() && Replay::close(res[0].get(), fn.expect, 1.0);
                if (!ok) {
                    w << fn.name << " of the set (" << desc.str() << ") ";
                    if (thrown) w << "throws";
                    else if (res.size() == 1 && res[0].defined()) w << "is " << res[0].get() << ", the definition gives " << (d.empty() ? std::string("an undefined result") : std::to_string(fn.expect));
                    else w << "is undefined, the definition gives " << fn.expect;
                    return r.verdict(false, w.str());
                }
            }
        }
    }
    return r.verdict(true, "MAX / MIN / SUM / PROD / AVEA / NORM* / AVEG / AVEH and defined_values() match their definitions on all test sets (bounded native search)");
}
