// REPLAY_SOURCES: opm/input/eclipse/EclipseState/Grid/GridDims.cpp
#include "replay.hpp"
#include <opm/input/eclipse/EclipseState/Grid/GridDims.hpp>
#include <sstream>
int main(int argc, char** argv)
{
    Replay r(argc, argv);
    const long nx = r.integer("verif_in_self.m_nx"), ny = r.integer("verif_in_self.m_ny"), nz = r.integer("verif_in_self.m_nz");
    Opm::GridDims g(nx, ny, nz);
    std::ostringstream w;
    if (r.is("getIJK/")) {
        const long gi = r.integer("globalIndex");
        auto ijk = g.getIJK(gi);
        w << "dims " << nx << "x" << ny << "x" << nz << " global " << gi << " -> (" << ijk[0] << "," << ijk[1] << "," << ijk[2] << ")";
        bool ok = true;
        if (r.is("i_range")) ok = ijk[0] >= 0 && ijk[0] < nx;
        else if (r.is("j_range")) ok = ijk[1] >= 0 && ijk[1] < ny;
        else if (r.is("k_range")) ok = ijk[2] >= 0 && ijk[2] < nz;
        else if (r.is("recompose")) ok = ijk[0] + nx * (ijk[1] + ny * (long)ijk[2]) == gi;
        else return 3;
        return r.verdict(ok, w.str());
    }
    if (r.is("getGlobalIndex/")) {
        const long i = r.integer("i"), j = r.integer("j"), k = r.integer("k");
        const long gi = g.getGlobalIndex(i, j, k);
        w << "(" << i << "," << j << "," << k << ") -> " << gi;
        bool ok = r.is("formula") ? gi == i + nx * (j + ny * k) : (gi >= 0 && gi < nx * ny * nz);
        return r.verdict(ok, w.str());
    }
    if (r.is("getCartesianSize/")) return r.verdict((long)g.getCartesianSize() == nx * ny * nz, "size");
    if (r.is("assertGlobalIndex/") || r.is("assertIJK/")) {
        bool thrown = false, expect;
        try {
            if (r.is("assertGlobalIndex/")) { g.assertGlobalIndex(r.integer("globalIndex")); }
            else g.assertIJK(r.integer("i"), r.integer("j"), r.integer("k"));
        } catch (const std::exception&) { thrown = true; }
        if (r.is("assertGlobalIndex/")) expect = r.integer("globalIndex") >= nx * ny * nz;
        else expect = r.integer("i") >= nx || r.integer("j") >= ny || r.integer("k") >= nz;
        return r.verdict(thrown == expect, "throw behaviour");
    }
    std::cerr << "no native replay for this obligation\n";
    return 3;
}
