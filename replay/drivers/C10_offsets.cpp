// REPLAY_SOURCES: opm/io/eclipse/ESmry.cpp
// Replays refuted obligations of the ESMRY reader's on-demand path at the level the property speaks about: a summary
// case is written through the real output streams (OutputStream::SummarySpecification / createSummaryFile / EclOutput)
// and every vector is read back on demand with the real ESmry::get().
//  * element-position obligations: the vector position p of the counterexample decides the number of vectors;
//  * "strtof: argument is NUL-terminated inside its buffer": the formatted on-demand read is run under valgrind
//    memcheck (a read past the end of the 17-byte buffer is the failure); wrong values are reported as well.
#include "replay.hpp"
#include <opm/io/eclipse/ESmry.hpp>
#include <opm/io/eclipse/EclOutput.hpp>
#include <opm/io/eclipse/OutputStream.hpp>
#include <opm/common/utility/TimeService.hpp>
#include <array>
#include <filesystem>
#include <memory>
#include <sys/wait.h>
#include <unistd.h>
namespace OS = Opm::EclIO::OutputStream; namespace fs = std::filesystem;
static const std::vector<std::pair<int,int>> steps = { {0, 1}, {1, 1}, {2, 2}, {3, 3}, {4, 3} };
static float value(int pos, int ministep) { return static_cast<float>(8 * pos + ministep); }
static std::string key(int pos) { if (pos == 0) return "TIME"; char b[16]; std::snprintf(b, sizeof b, "W%05d", pos); return std::string("WOPR:") + b; }
static void writeCase(const fs::path& dir, int nvect, bool fmt) {
    const auto rset = OS::ResultSet { dir.string(), "CASE" };
    { OS::SummarySpecification::Parameters prm; prm.add("TIME", ":+:+:+:+", 0, "DAYS");
      for (int p = 1; p < nvect; ++p) { char b[16]; std::snprintf(b, sizeof b, "W%05d", p); prm.add("WOPR", b, 0, "SM3/DAY"); }
      auto smspec = OS::SummarySpecification { rset, OS::Formatted { fmt }, OS::SummarySpecification::UnitConvention::Metric,
          std::array<int,3>{ 10, 10, 10 }, OS::SummarySpecification::RestartSpecification { "", -1 }, Opm::TimeService::from_time_t(1577836800) };
      smspec.write(prm); }
    std::unique_ptr<Opm::EclIO::EclOutput> stream; int prev = -1;
    for (const auto& [ministep, report] : steps) {
        if (!stream) stream = OS::createSummaryFile(rset, report, OS::Formatted{fmt}, OS::Unified{true});
        if (report != prev) stream->write("SEQHDR", std::vector<int>{ report });
        std::vector<float> params(nvect); for (int p = 0; p < nvect; ++p) params[p] = value(p, ministep);
        stream->write("MINISTEP", std::vector<int>{ ministep }); stream->write("PARAMS", params); prev = report;
    }
}
static int readOnDemand(const fs::path& dir, int nvect, bool fmt, std::string& first) {
    int nerr = 0;
    for (int p = 0; p < nvect; ++p) {
        Opm::EclIO::ESmry smry((dir / (fmt ? "CASE.FSMSPEC" : "CASE.SMSPEC")).string());
        const auto& v = smry.get(key(p));
        for (std::size_t s = 0; s < steps.size() && s < v.size(); ++s)
            if (v[s] != value(p, steps[s].first)) { if (!nerr) first = key(p) + " (position " + std::to_string(p) + ") ministep " + std::to_string(s) + ": read " + std::to_string(v[s]) + ", written " + std::to_string(value(p, steps[s].first)); ++nerr; }
        if (p > 40 && p + 40 < nvect && (p % 1000) > 20 && (p % 1000) < 980) p += 37;      // dense near block boundaries
    }
    return nerr;
}
int main(int argc, char** argv)
{
    if (argc > 2 && std::string(argv[1]) == "--child") {       // the part run under valgrind
        std::string first; readOnDemand(argv[2], 5, true, first); return 0;
    }
    Replay r(argc, argv);
    const auto dir = fs::temp_directory_path() / ("verif_c10_" + std::to_string(::getpid()));
    fs::create_directories(dir);
    int rc;
    if (r.is("strtof")) {
        writeCase(dir, 5, true);
        std::string first; const int nerr = readOnDemand(dir, 5, true, first);
        const pid_t pid = fork();
        if (pid == 0) { execlp("valgrind", "valgrind", "-q", "--error-exitcode=9", argv[0], "--child", dir.c_str(), (char*)nullptr); _exit(3); }
        int st = 0; waitpid(pid, &st, 0);
        const bool vg = WIFEXITED(st) && WEXITSTATUS(st) == 9;
        rc = r.verdict(!vg && nerr == 0, std::string("formatted summary, on-demand ESmry::get(): valgrind memcheck ") + (vg ? "reports invalid reads (strtof runs past the 17-byte buffer)" : "is clean")
                       + "; " + std::to_string(nerr) + " wrong values" + (nerr ? ", first: " + first : ""));
    } else {
        const bool fmt = r.is("fmt_");
        long p = r.has("paramPos") ? r.integer("paramPos") : 1000;
        // block-size obligations have no input to decode: the case spans more than four 1000-element blocks
        const int nvect = r.is("block_size") ? 4600 : (int)std::min<long>(std::max<long>(p + 2, 1010), 4600);
        writeCase(dir, nvect, fmt);
        std::string first; const int nerr = readOnDemand(dir, nvect, fmt, first);
        rc = r.verdict(nerr == 0, std::string(fmt ? "formatted" : "unformatted") + " summary with " + std::to_string(nvect) + " vectors read on demand: " + std::to_string(nerr) + " wrong values" + (nerr ? ", first: " + first : ""));
    }
    fs::remove_all(dir);
    return rc;
}
