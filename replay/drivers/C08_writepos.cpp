// REPLAY_SOURCES: opm/io/eclipse/ERst.cpp opm/io/eclipse/OutputStream.cpp
// REPLAY_SEARCH
// Native replay for C08/writepos: every history of up to 4 writes of report steps from {1,...,4} (in any order, with
// repeats: a later write of step s rewinds the file to s) goes through the real OutputStream::Restart, unformatted and
// formatted; after the last write the unified restart file must be byte for byte the file a fresh run writes for the
// surviving steps (the steps below the last one written that survived, followed by it), in increasing order.
#include "replay.hpp"
#include <opm/io/eclipse/OutputStream.hpp>
#include <opm/io/eclipse/EclOutput.hpp>
#include <filesystem>
#include <iterator>
#include <set>
#include <sstream>
#include <unistd.h>
#include <vector>
using namespace Opm::EclIO::OutputStream;
static void step(const std::string& dir, int s, bool fmt) {
    ResultSet rset{dir, "CASE"};
    Restart r{rset, s, Formatted{fmt}, Unified{true}};
    r.write("INTEHEAD", std::vector<int>{s, 2, 3});
    r.write("PRESSURE", std::vector<float>(7, 1.5f * s));
}
static std::string slurp(const std::string& f) { std::ifstream is(f, std::ios::binary); return {std::istreambuf_iterator<char>(is), {}}; }
int main(int argc, char** argv)
{
    Replay r(argc, argv);
    namespace fs = std::filesystem;
    const auto base = fs::temp_directory_path() / ("verif_c08w_" + std::to_string(::getpid()));
    std::ostringstream w; int n = 0;
    for (int fmt = 0; fmt <= 1; ++fmt)
        for (int len = 1; len <= 4; ++len) {
            int total = 1; for (int i = 0; i < len; ++i) total *= 4;
            for (int code = 0; code < total; ++code) {
                std::vector<int> hist; for (int i = 0, c = code; i < len; ++i, c /= 4) hist.push_back(1 + c % 4);
                const std::string a = (base / ("a" + std::to_string(n))).string(), b = (base / ("b" + std::to_string(n))).string(); ++n;
                fs::create_directories(a); fs::create_directories(b);
                std::set<int> survive;
                for (int s : hist) { step(a, s, fmt != 0); for (auto it = survive.begin(); it != survive.end();) it = (*it >= s) ? survive.erase(it) : std::next(it); survive.insert(s); }
                for (int s : survive) step(b, s, fmt != 0);
                const std::string ext = fmt ? "FUNRST" : "UNRST";
                const std::string A = slurp(a + "/CASE." + ext), B = slurp(b + "/CASE." + ext);
                fs::remove_all(a); fs::remove_all(b);
                if (A != B) {
                    w << (fmt ? "formatted" : "unformatted") << ", report steps written in the order";
                    for (int s : hist) w << ' ' << s;
                    w << ": the file has " << A.size() << " bytes, a fresh file with the surviving steps {";
                    for (int s : survive) w << ' ' << s;
                    w << " } has " << B.size();
                    fs::remove_all(base);
                    return r.verdict(false, w.str());
                }
            }
        }
    fs::remove_all(base);
    return r.verdict(true, "every write history of up to 4 report steps leaves exactly the surviving steps in the file (bounded native search)");
}
