// REPLAY_SEARCH
// Native replay for C14/pvtw and C14/pvcdo: the constant-compressibility water and oil models are set up for three
// regions with distinct PVTW / PVCDO records; at each region's reference pressure the formation volume factor and the
// viscosity returned must be the tabulated numbers, and away from it the documented truncated-exponential law.
#include "replay.hpp"
#include <opm/material/fluidsystems/blackoilpvt/ConstantCompressibilityWaterPvt.hpp>
#include <opm/material/fluidsystems/blackoilpvt/ConstantCompressibilityOilPvt.hpp>
#include <sstream>
template <class Pvt, class Eval>
static bool run(const char* what, Eval eval, std::ostringstream& w)
{
    const double pref[] = {1.0e7, 2.5e7, 3.0e7}, bref[] = {1.01, 1.05, 0.98}, c[] = {4.0e-10, 1.0e-9, 0.0}, mu[] = {5.0e-4, 3.0e-4, 1.0e-3}, cv[] = {0.0, 2.0e-10, 1.0e-9};
    Pvt pvt;
    pvt.setNumRegions(3);
    for (unsigned r = 0; r < 3; ++r) {
        pvt.setReferenceDensities(r, 800.0, 1.0, 1000.0);
        pvt.setReferencePressure(r, pref[r]); pvt.setReferenceFormationVolumeFactor(r, bref[r]); pvt.setCompressibility(r, c[r]);
        pvt.setViscosity(r, mu[r], cv[r]);
    }
    pvt.initEnd();
    for (unsigned r = 0; r < 3; ++r)
        for (double dp : {0.0, -5.0e6, 2.0e7}) {
            const double p = pref[r] + dp, X = c[r] * dp, Y = (c[r] - cv[r]) * dp;
            const double eb = (1 + X * (1 + X / 2)) / bref[r], em = mu[r] * bref[r] * eb / (1 + Y * (1 + Y / 2));
            double b, m; eval(pvt, r, p, b, m);
            if (!Replay::close(b, eb, 1.0) || !Replay::close(m, em, 1.0)) {
                w << what << " region " << r << " at p = pref" << (dp >= 0 ? "+" : "") << dp << ": 1/B = " << b << " (table / law: " << eb << "), viscosity = " << m << " (table / law: " << em << ")";
                return false;
            }
        }
    return true;
}
int main(int argc, char** argv)
{
    Replay r(argc, argv);
    std::ostringstream w;
    const bool ok = run<Opm::ConstantCompressibilityWaterPvt<double>>("PVTW", [](const auto& pvt, unsigned reg, double p, double& b, double& m) {
                        b = pvt.inverseFormationVolumeFactor(reg, 300.0, p, 0.0, 0.0); m = pvt.viscosity(reg, 300.0, p, 0.0, 0.0); }, w)
                 && run<Opm::ConstantCompressibilityOilPvt<double>>("PVCDO", [](const auto& pvt, unsigned reg, double p, double& b, double& m) {
                        b = pvt.inverseFormationVolumeFactor(reg, 300.0, p, 0.0); m = pvt.viscosity(reg, 300.0, p, 0.0); }, w);
    if (ok) w << "PVTW and PVCDO reproduce the tabulated Bw / Bo and viscosities at the reference pressures and follow the documented law elsewhere";
    return r.verdict(ok, w.str());
}
