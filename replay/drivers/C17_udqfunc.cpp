// REPLAY_SOURCES: opm/input/eclipse/Schedule/UDQ/UDQFunction.cpp
// REPLAY_SEARCH
// Native replay for C17/udqfunc: every set of 1..3 elements with values from { undefined, -2, 0, 0.5, 3 } is passed to
// the real ABS / DEF / EXP / LN / LOG / IDV / UNDEF and compared element by element with the definitions (undefined elements
// stay undefined; IDV is the indicator of definedness; UNDEF is 1 exactly on the undefined elements; LN / LOG raise for a defined non-positive element).
#include "replay.hpp"
#include <opm/input/eclipse/Schedule/UDQ/UDQFunction.hpp>
#include <opm/input/eclipse/Schedule/UDQ/UDQSet.hpp>
#include <cmath>
#include <optional>
#include <sstream>
#include <vector>
using Opm::UDQSet; using F = Opm::UDQUnaryElementalFunction;
int main(int argc, char** argv)
{
    Replay r(argc, argv);
    const std::vector<std::optional<double>> vals = { std::nullopt, -2.0, 0.0, 0.5, 3.0 };
    std::ostringstream w;
    for (std::size_t n = 1; n <= 3; ++n) {
        std::size_t total = 1; for (std::size_t i = 0; i < n; ++i) total *= vals.size();
        for (std::size_t code = 0; code < total; ++code) {
            UDQSet arg("X", n);
            std::vector<std::optional<double>> a(n);
            for (std::size_t i = 0, c = code; i < n; ++i, c /= vals.size()) { a[i] = vals[c % vals.size()]; if (a[i]) arg.assign(i, *a[i]); }
            struct { const char* name; UDQSet (*f)(const UDQSet&); int kind; } fns[] = {
                { "ABS", &F::ABS, 0 }, { "DEF", &F::DEF, 1 }, { "EXP", &F::EXP, 2 }, { "LN", &F::LN, 3 }, { "LOG", &F::LOG, 4 }, { "IDV", &F::IDV, 5 }, { "UNDEF", &F::UNDEF, 6 } };
            for (const auto& fn : fns) {
                bool mustThrow = false;
                if (fn.kind == 3 || fn.kind == 4) for (const auto& x : a) if (x && *x <= 0) mustThrow = true;
                bool thrown = false; UDQSet res("R", n);
                try { res = fn.f(arg); } catch (const std::exception&) { thrown = true; }
                bool ok = thrown == mustThrow;
                for (std::size_t i = 0; ok && !thrown && i < n; ++i) {
                    std::optional<double> e;
                    switch (fn.kind) {
                    case 0: if (a[i]) e = std::fabs(*a[i]); break;
                    case 1: if (a[i]) e = 1.0; break;
                    case 2: if (a[i]) e = std::exp(*a[i]); break;
                    case 3: if (a[i]) e = std::log(*a[i]); break;
                    case 4: if (a[i]) e = std::log10(*a[i]); break;
                    case 6: if (!a[i]) e = 1.0; break;
                    default: e = a[i] ? 1.0 : 0.0;
                    }
                    ok = res.size() == n && res[i].defined() == e.has_value() && (!e || Replay::close(res[i].get(), *e, 1.0));
                }
                if (!ok) {
                    w << fn.name << " of the set (";
                    for (std::size_t i = 0; i < n; ++i) { if (i) w << ", "; if (a[i]) w << *a[i]; else w << "undefined"; }
                    w << ") " << (thrown ? "throws" : "does not match the element-wise definition") << (mustThrow && !thrown ? " (must throw)" : "");
                    return r.verdict(false, w.str());
                }
            }
        }
    }
    return r.verdict(true, "ABS / DEF / EXP / LN / LOG / IDV / UNDEF match their element-wise definitions on all test sets (bounded native search)");
}
