// REPLAY_SEARCH
// Native replay for C15/epsmaps: the four saturation maps of EclEpsTwoPhaseLaw are evaluated with the real code on a grid
// of end-point triples and saturations and compared with the contracts: two-point maps are the affine maps through the
// outer end points; three-point maps are piecewise affine through the three end points, clamped outside; scaling with
// end points equal to the table's own is the identity; the two directions are mutually inverse inside the range and
// monotone.  Exit 1 = end points / saturation on which the real code differs.
#define private public
#include <opm/material/fluidmatrixinteractions/EclEpsTwoPhaseLaw.hpp>
#undef private
#include <opm/material/fluidmatrixinteractions/PiecewiseLinearTwoPhaseMaterial.hpp>
#include <opm/material/fluidmatrixinteractions/MaterialTraits.hpp>
#include "replay.hpp"
#include <array>
#include <sstream>
using Traits = Opm::TwoPhaseMaterialTraits<double, 0, 1>;
using Law = Opm::EclEpsTwoPhaseLaw<Opm::PiecewiseLinearTwoPhaseMaterial<Traits>>;
using P3 = std::array<double, 3>;
static double ref3(double s, const P3& from, const P3& to)       // piecewise affine from -> to, clamped
{
    if (s <= from[0]) return to[0];
    if (s >= from[2]) return to[2];
    if (s < from[1]) return to[0] + (s - from[0]) / (from[1] - from[0]) * (to[1] - to[0]);
    return to[1] + (s - from[1]) / (from[2] - from[1]) * (to[2] - to[1]);
}
int main(int argc, char** argv)
{
    Replay r(argc, argv);
    std::ostringstream w;
    const P3 pts[] = { {0.1, 0.4, 0.9}, {0.0, 0.5, 1.0}, {0.2, 0.3, 0.8}, {0.15, 0.6, 0.95} };
    for (const auto& U : pts) for (const auto& S : pts) {
        double prev = -1e300;
        for (int k = -2; k <= 22; ++k) {
            const double s = 0.05 * k;
            const double a2 = Law::scaledToUnscaledSatTwoPoint_<double, P3>(s, U, S);
            const double e2 = U[0] + (s - S[0]) * ((U[2] - U[0]) / (S[2] - S[0]));
            const double b2 = Law::unscaledToScaledSatTwoPoint_<double, P3>(s, U, S);
            const double f2 = S[0] + (s - U[0]) * ((S[2] - S[0]) / (U[2] - U[0]));
            const double a3 = Law::scaledToUnscaledSatThreePoint_<double, P3>(s, U, S), e3 = ref3(s, S, U);
            const double b3 = Law::unscaledToScaledSatThreePoint_<double, P3>(s, U, S), f3 = ref3(s, U, S);
            const char* bad = nullptr; double got = 0, exp = 0;
            if (!Replay::close(a2, e2, 1.0)) { bad = "scaledToUnscaledSatTwoPoint_"; got = a2; exp = e2; }
            else if (!Replay::close(b2, f2, 1.0)) { bad = "unscaledToScaledSatTwoPoint_"; got = b2; exp = f2; }
            else if (!Replay::close(a3, e3, 1.0)) { bad = "scaledToUnscaledSatThreePoint_"; got = a3; exp = e3; }
            else if (!Replay::close(b3, f3, 1.0)) { bad = "unscaledToScaledSatThreePoint_"; got = b3; exp = f3; }
            else if (a3 < prev - 1e-12) { bad = "scaledToUnscaledSatThreePoint_ (monotone)"; got = a3; exp = prev; }
            else if (S[0] < s && s < S[2] && !Replay::close(Law::unscaledToScaledSatThreePoint_<double, P3>(a3, U, S), s, 1.0)) { bad = "three-point round trip"; got = Law::unscaledToScaledSatThreePoint_<double, P3>(a3, U, S); exp = s; }
            if (bad) {
                w << bad << " at saturation " << s << " with unscaled points (" << U[0] << "," << U[1] << "," << U[2] << ") and scaled points (" << S[0] << "," << S[1] << "," << S[2]
                  << "): " << got << ", contract: " << exp;
                return r.verdict(false, w.str());
            }
            prev = a3;
        }
    }
    return r.verdict(true, "all four maps agree with the piecewise-affine contracts on the test grid (bounded native search)");
}
