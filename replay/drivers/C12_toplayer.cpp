// REPLAY_SOURCES: opm/input/eclipse/EclipseState/Grid/FieldProps.cpp
// REPLAY_SEARCH
// Native replay for C12/toplayer: PORO given for the top layer only (BOX 1 nx 1 ny 1 1) on 2x2x3 and 3x2x2 grids whose top
// layer is active, for EVERY activity pattern of the lower layers: every active cell (i,j,k) must receive the value
// given for the top of its column (i,j), at its own active index, whatever other cells are inactive.  The decks go
// through the real parser and the real FieldProps (distribute_toplayer is private).  Exit 1 = a pattern that fails.
#include "replay.hpp"
#include <opm/input/eclipse/Deck/Deck.hpp>
#include <opm/input/eclipse/EclipseState/Grid/EclipseGrid.hpp>
#include <opm/input/eclipse/EclipseState/Grid/FieldPropsManager.hpp>
#include <opm/input/eclipse/EclipseState/Runspec.hpp>
#include <opm/input/eclipse/EclipseState/Tables/TableManager.hpp>
#include <opm/input/eclipse/Parser/Parser.hpp>
#include <sstream>
#include <vector>
int main(int argc, char** argv)
{
    Replay r(argc, argv);
    std::ostringstream w;
    const int dims[2][3] = { {2, 2, 3}, {3, 2, 2} };
    for (const auto& d : dims) {
        const int NX = d[0], NY = d[1], NZ = d[2], L = NX * NY, N = L * NZ, lower = N - L;
        for (unsigned mask = 0; mask < (1u << lower); ++mask) {
            std::ostringstream deck;
            deck << "RUNSPEC\nDIMENS\n " << NX << ' ' << NY << ' ' << NZ << " /\nGRID\nDX\n " << N << "*100 /\nDY\n " << N << "*100 /\nDZ\n " << N
                 << "*10 /\nTOPS\n " << L << "*1000 /\nACTNUM\n";
            std::vector<int> act(N, 1);
            for (int g = L; g < N; ++g) act[g] = (mask >> (g - L)) & 1u;
            for (int g = 0; g < N; ++g) deck << ' ' << act[g];
            deck << " /\nBOX\n 1 " << NX << " 1 " << NY << " 1 1 /\nPORO\n";
            for (int c = 0; c < L; ++c) deck << ' ' << 0.10 + 0.01 * (c + 1);
            deck << " /\nENDBOX\n";
            std::vector<double> poro;
            bool thrown = false; std::string what;
            try {
                const auto dk = Opm::Parser{}.parseString(deck.str());
                const Opm::EclipseGrid grid(dk);
                const Opm::TableManager tables(dk);
                const Opm::FieldPropsManager fpm(dk, Opm::Phases{true, true, true}, const_cast<Opm::EclipseGrid&>(grid), tables);
                poro = fpm.get_double("PORO");
            } catch (const std::exception& e) { thrown = true; what = e.what(); }
            bool ok = !thrown;
            std::size_t a = 0; int bad = -1;
            for (int g = 0; ok && g < N; ++g) {
                if (!act[g]) continue;
                const int col = g % L;
                if (a >= poro.size() || !Replay::close(poro[a], 0.10 + 0.01 * (col + 1), 1.0)) { ok = false; bad = g; }
                ++a;
            }
            if (ok && a != poro.size()) ok = false;
            if (!ok) {
                w << NX << 'x' << NY << 'x' << NZ << " grid, ACTNUM";
                for (int g = 0; g < N; ++g) w << ' ' << act[g];
                if (thrown) w << ": PORO from the top layer raises: " << what.substr(0, 120);
                else if (bad >= 0) w << ": active cell with global index " << bad << " (column " << bad % L << ") holds " << (a - 1 < poro.size() ? poro[a - 1] : -1.0)
                                     << ", its column top was given " << 0.10 + 0.01 * (bad % L + 1);
                else w << ": wrong number of values";
                return r.verdict(false, w.str());
            }
        }
    }
    return r.verdict(true, "every active cell receives the top-layer value of its own column for all activity patterns of the lower layers (bounded native search)");
}
