// REPLAY_SOURCES: opm/input/eclipse/EclipseState/Tables/PvtxTable.cpp
// REPLAY_SEARCH
// Native replay for C14/pvtx: PVTO with 2..5 PVT regions, region 1 given and every later region either given or defaulted
// (a lone "/"), in every combination, goes through the real parser and TableManager: a given region must hold its own
// table, a defaulted region the table of the LAST given region before it (tables are told apart by their Bo value).
#include "replay.hpp"
#include <opm/input/eclipse/Deck/Deck.hpp>
#include <opm/input/eclipse/EclipseState/Tables/PvtoTable.hpp>
#include <opm/input/eclipse/EclipseState/Tables/TableManager.hpp>
#include <opm/input/eclipse/Parser/Parser.hpp>
#include <sstream>
int main(int argc, char** argv)
{
    Replay r(argc, argv);
    std::ostringstream w;
    for (int n = 2; n <= 5; ++n)
        for (unsigned given = 1; given < (1u << n); given += 2) {           // bit q: region q+1 has its own table; region 1 always
            std::ostringstream deck;
            deck << "RUNSPEC\nOIL\nGAS\nDISGAS\nTABDIMS\n 1 " << n << " /\nPROPS\nPVTO\n";
            for (int q = 0; q < n; ++q) {
                if ((given >> q) & 1u)
                    deck << " 0.1 10 " << 1.0 + 0.1 * (q + 1) << " 1.0\n     50 " << 0.9 + 0.1 * (q + 1) << " 1.1 /\n 0.2 20 " << 1.05 + 0.1 * (q + 1) << " 0.9\n     60 " << 0.95 + 0.1 * (q + 1) << " 1.0 /\n/\n";
                else
                    deck << "/\n";
            }
            bool ok = true; std::string what; int badq = -1; double got = 0, want = 0;
            try {
                const auto dk = Opm::Parser{}.parseString(deck.str());
                const Opm::TableManager tables(dk);
                const auto& pvto = tables.getPvtoTables();
                if (static_cast<int>(pvto.size()) != n) { ok = false; what = "wrong number of PVTO tables"; }
                int src = 0;
                for (int q = 0; ok && q < n; ++q) {
                    if ((given >> q) & 1u) src = q;
                    want = 1.0 + 0.1 * (src + 1);
                    got = pvto[q].getUnderSaturatedTable(0).get(1, 0);
                    if (pvto[q].size() != 2 || !Replay::close(got, want, 1.0)) { ok = false; badq = q; }
                }
            } catch (const std::exception& e) { ok = false; what = std::string("raises: ") + e.what(); }
            if (!ok) {
                w << "PVTO with " << n << " regions, given/defaulted pattern";
                for (int q = 0; q < n; ++q) w << (((given >> q) & 1u) ? " G" : " D");
                if (badq >= 0) w << ": region " << badq + 1 << " holds the table with Bo = " << got << ", expected the table with Bo = " << want;
                else w << ": " << what.substr(0, 160);
                return r.verdict(false, w.str());
            }
        }
    return r.verdict(true, "every defaulted PVT region copies the last given table before it, every given region keeps its own (bounded native search)");
}
