// REPLAY_SOURCES: opm/io/eclipse/EclFile.cpp
// Replays a refuted seekPosition obligation at the level the property speaks about: a unified restart file is
// written (formatted or not, as in the counterexample), rewound to an earlier step through the real
// OutputStream::Restart, and compared byte for byte with a fresh file holding the surviving steps.
#include "replay.hpp"
#include <opm/io/eclipse/OutputStream.hpp>
#include <opm/io/eclipse/EclOutput.hpp>
#include <filesystem>
#include <unistd.h>
#include <iterator>
#include <vector>
using namespace Opm::EclIO::OutputStream;
static void step(const std::string& dir, int s, bool fmt) {
    ResultSet rset{dir, "CASE"};
    Restart r{rset, s, Formatted{fmt}, Unified{true}};
    r.write("INTEHEAD", std::vector<int>{s, 2, 3});
    r.write("PRESSURE", std::vector<float>(7, 1.5f * s));
}
static std::string slurp(const std::string& f) { std::ifstream is(f, std::ios::binary); return {std::istreambuf_iterator<char>(is), {}}; }
int main(int argc, char** argv)
{
    Replay r(argc, argv);
    const bool fmt = r.integer("verif_in_self.formatted") != 0;
    namespace fs = std::filesystem;
    const auto base = fs::temp_directory_path() / ("verif_c08_" + std::to_string(::getpid()));
    const std::string a = (base / "a").string();
    const std::string b = (base / "b").string();
    fs::create_directories(a); fs::create_directories(b);
    for (int s : {1, 2, 3}) step(a, s, fmt);
    step(a, 2, fmt);                          // rewind to step 2, as a restarted run does
    for (int s : {1, 2}) step(b, s, fmt);     // what a fresh file with the surviving steps holds
    const std::string ext = fmt ? "FUNRST" : "UNRST";
    const std::string A = slurp(a + "/CASE." + ext);
    const std::string B = slurp(b + "/CASE." + ext);
    fs::remove_all(base);
    std::size_t i = 0; while (i < A.size() && i < B.size() && A[i] == B[i]) ++i;
    return r.verdict(A == B, std::string(fmt ? "formatted" : "unformatted") + " unified restart, write 1,2,3 then rewind to 2: "
                     + std::to_string(A.size()) + " bytes vs " + std::to_string(B.size()) + " bytes in a fresh file"
                     + (A == B ? "" : ", first difference at byte " + std::to_string(i)));
}
