// Replays a refuted chain-rule obligation of Evaluation<double,N> on the real header code (header-only templates:
// the driver is compiled against /repo's current headers).  argv[3] = unit name "ad<N>".
#include "replay.hpp"
#include <opm/material/densead/Evaluation.hpp>
#include <opm/material/densead/Math.hpp>
#include <sstream>
#include <cstring>
#include <functional>
#include <cmath>
template <int N> using E = Opm::DenseAd::Evaluation<double, N>;
template <int N> static E<N> load(const Replay& r, const std::string& p) {
    E<N> x;
    auto get = [&](int i) { const std::string a = p + ".data_.a[" + std::to_string(i) + "l]", b = p + ".data_.a[" + std::to_string(i) + "]";
                            return r.has(a) ? r.num(a) : r.num(b, 0.25 * (i + 1)); };
    x.setValue(get(0));
    for (int i = 0; i < N; ++i) x.setDerivative(i, get(i + 1));
    return x;
}
template <int N> static int run(const Replay& r)
{
    std::ostringstream w; w.precision(17);
    // which slot does the obligation talk about?  "ensures d7" / "ensures val"
    int slot = -1;
    { auto pos = r.obligation.find("ensures d"); if (pos != std::string::npos) slot = std::atoi(r.obligation.c_str() + pos + 9); }
    { auto pos = r.obligation.find("alias/"); if (pos != std::string::npos) { auto q = r.obligation.find(" d", pos); if (q != std::string::npos) slot = std::atoi(r.obligation.c_str() + q + 2); } }
    auto check = [&](const E<N>& got, double val, const std::function<double(int)>& d) {
        if (slot <= 0) { w << "value " << got.value() << " expected " << val; return r.verdict(Replay::close(got.value(), val), w.str()); }
        w << "N=" << N << " derivative slot " << slot << ": " << got.derivative(slot - 1) << ", chain rule: " << d(slot);
        return r.verdict(Replay::close(got.derivative(slot - 1), d(slot), 1.0), w.str());
    };
    const char* ops[] = {"add", "sub", "mul", "div"};
    for (const char* op : ops) {
        const std::string o(op);
        const bool assign = r.is("E_" + o + "_assign_E/"), bin = r.is("E_" + o + "_E/");
        if (assign || bin) {
            E<N> u = load<N>(r, "verif_in_self"), v = load<N>(r, "verif_in_other"); const E<N> u0 = u;
            E<N> res;
            if (o == "add") res = assign ? (u += v) : u + v; else if (o == "sub") res = assign ? (u -= v) : u - v;
            else if (o == "mul") res = assign ? (u *= v) : u * v; else res = assign ? (u /= v) : u / v;
            const double U = u0.value(), V = v.value();
            auto du = [&](int i) { return u0.derivative(i - 1); }; auto dv = [&](int i) { return v.derivative(i - 1); };
            if (o == "add") return check(res, U + V, [&](int i) { return du(i) + dv(i); });
            if (o == "sub") return check(res, U - V, [&](int i) { return du(i) - dv(i); });
            if (o == "mul") return check(res, U * V, [&](int i) { return du(i) * V + U * dv(i); });
            return check(res, U / V, [&](int i) { return (du(i) * V - U * dv(i)) / (V * V); });
        }
        if (r.is("c_" + o + "_E/")) {
            const double a = r.num("a"); const E<N> b = load<N>(r, "verif_in_b"); const double B = b.value();
            auto db = [&](int i) { return b.derivative(i - 1); };
            if (o == "add") return check(a + b, a + B, [&](int i) { return db(i); });
            if (o == "sub") return check(a - b, a - B, [&](int i) { return -db(i); });
            if (o == "mul") return check(a * b, a * B, [&](int i) { return a * db(i); });
            return check(a / b, a / B, [&](int i) { return -a * db(i) / (B * B); });
        }
    }
    if (r.is("alias/")) {
        E<N> x = load<N>(r, "x0"); const E<N> x0 = x;
        if (r.is("alias/mul")) { x *= x; return check(x, x0.value() * x0.value(), [&](int i) { return 2 * x0.value() * x0.derivative(i - 1); }); }
        E<N> y = load<N>(r, "y0"); y /= y; return check(y, 1.0, [&](int) { return 0.0; });
    }
    // math functions of Math.hpp: "m_<fn>/", "m_<fn>_EE/", "m_<fn>_Ec/", "m_<fn>_cE/": the operands come from the counterexample
    // (or defaults); value and derivative are compared with the chain rule over a central difference of the std function
    {
        const auto p0 = r.obligation.find("m_");
        if (p0 != std::string::npos) {
            std::string fn = r.obligation.substr(p0 + 2, r.obligation.find('/', p0) - p0 - 2), shape = "E";
            for (const char* sh : {"_EE", "_Ec", "_cE"}) if (fn.size() > 3 && fn.compare(fn.size() - 3, 3, sh) == 0) { shape = sh + 1; fn.resize(fn.size() - 3); }
            auto ld = [&](const char* a, const char* b, double dv) { E<N> e = load<N>(r, r.has(std::string(a) + ".data_.a[0l]") || r.has(std::string(a) + ".data_.a[0]") ? a : b);
                                                                   if (!r.has(std::string(a) + ".data_.a[0l]") && !r.has(std::string(a) + ".data_.a[0]") && !r.has(std::string(b) + ".data_.a[0l]") && !r.has(std::string(b) + ".data_.a[0]")) e.setValue(dv);
                                                                   return e; };
            const E<N> X = ld("verif_in_x", "x", 0.6), Y = ld("verif_in_y", "y", 1.7);
            const double cx = r.num("x", 0.6), cy = r.num("y", 1.7);
            using F2 = std::function<double(double, double)>;
            F2 f; E<N> got;
            const double xv = shape == "cE" ? cx : X.value(), yv = shape == "Ec" ? cy : Y.value();
            if (fn == "atan2") { f = [](double a, double b) { return std::atan2(a, b); }; got = shape == "EE" ? Opm::atan2(X, Y) : Opm::atan2(X, cy); }
            else if (fn == "pow") { f = [](double a, double b) { return std::pow(a, b); }; got = shape == "EE" ? Opm::pow(X, Y) : shape == "Ec" ? Opm::pow(X, cy) : Opm::pow(cx, Y); }
            else if (fn == "max") { f = [](double a, double b) { return std::max(a, b); }; got = shape == "EE" ? Opm::max(X, Y) : shape == "Ec" ? Opm::max(X, cy) : Opm::max(cx, Y); }
            else if (fn == "min") { f = [](double a, double b) { return std::min(a, b); }; got = shape == "EE" ? Opm::min(X, Y) : shape == "Ec" ? Opm::min(X, cy) : Opm::min(cx, Y); }
            else {
                std::function<double(double)> g;
                if (fn == "sqrt") { g = [](double a) { return std::sqrt(a); }; got = Opm::sqrt(X); } else if (fn == "exp") { g = [](double a) { return std::exp(a); }; got = Opm::exp(X); }
                else if (fn == "log") { g = [](double a) { return std::log(a); }; got = Opm::log(X); } else if (fn == "log10") { g = [](double a) { return std::log10(a); }; got = Opm::log10(X); }
                else if (fn == "sin") { g = [](double a) { return std::sin(a); }; got = Opm::sin(X); } else if (fn == "cos") { g = [](double a) { return std::cos(a); }; got = Opm::cos(X); }
                else if (fn == "tan") { g = [](double a) { return std::tan(a); }; got = Opm::tan(X); } else if (fn == "atan") { g = [](double a) { return std::atan(a); }; got = Opm::atan(X); }
                else if (fn == "abs") { g = [](double a) { return std::fabs(a); }; got = Opm::abs(X); }
                else { std::cerr << "no native replay for the math function " << fn << "\n"; return 3; }
                f = [g](double a, double) { return g(a); }; shape = "E";
            }
            const double h = 1e-6;
            const double fx = (f(xv + h, yv) - f(xv - h, yv)) / (2 * h), fy = (f(xv, yv + h) - f(xv, yv - h)) / (2 * h);
            auto d = [&](int i) { return (shape == "cE" ? 0.0 : fx * X.derivative(i - 1)) + ((shape == "EE" || shape == "cE") ? fy * Y.derivative(i - 1) : 0.0); };
            if (slot <= 0) { w << fn << " value " << got.value() << ", std: " << f(xv, yv); return r.verdict(Replay::close(got.value(), f(xv, yv)), w.str()); }
            w << fn << "(" << (shape == "cE" ? "scalar" : "Evaluation") << ", " << (shape == "Ec" ? "scalar" : shape == "E" ? "-" : "Evaluation") << ") at x = " << xv << ", y = " << yv << ", N=" << N << " derivative slot " << slot << ": "
              << got.derivative(slot - 1) << ", chain rule over the std function: " << d(slot);
            return r.verdict(std::fabs(got.derivative(slot - 1) - d(slot)) <= 1e-5 * std::max(1.0, std::fabs(d(slot))), w.str());
        }
    }
    std::cerr << "no native replay for this obligation\n";
    return 3;
}
int main(int argc, char** argv)
{
    Replay r(argc, argv);
    const int N = argc > 3 ? std::atoi(argv[3] + 2) : 0;
    switch (N) {
#define CASE(n) case n: return run<n>(r);
    CASE(1) CASE(2) CASE(3) CASE(4) CASE(5) CASE(6) CASE(7) CASE(8) CASE(9) CASE(10) CASE(11) CASE(12) CASE(13)
    default: std::cerr << "unknown variant\n"; return 3;
    }
}
