// REPLAY_SOURCES: opm/input/eclipse/Schedule/Action/ActionParser.cpp
// REPLAY_SEARCH
// Native replay for C18/parser.  The verifier's counterexample lives in ghost specification arrays (token kinds,
// phrase ends), not in a token vector, so the driver SEARCHES the real parser for a failing condition: every
// expression with up to 4 atomic comparisons FA > 1, FB > 1, ... combined with AND / OR and one optional pair of
// parentheses is parsed by the real Opm::Action::Parser::parse; the resulting tree is evaluated structurally
// (op_and = all children, op_or = any child, comparison = valuation of its left-hand function) for every valuation
// and compared with the value the statement's grammar (AND binds tighter than OR, parentheses group) gives.
// Exit 1 = a condition on which the real parser disagrees was found (printed); 0 = none within the bound.
#include <sstream>
#include <string>
#include <vector>
#define private public
#include <opm/input/eclipse/Schedule/Action/ASTNode.hpp>
#undef private
#include <opm/input/eclipse/Schedule/Action/ActionParser.hpp>
#include "replay.hpp"
using Opm::Action::ASTNode; using Opm::Action::TokenType;
static bool evalTree(const ASTNode& n, unsigned val)
{
    if (n.type == TokenType::op_and) { for (const auto& c : n.children) if (!evalTree(c, val)) return false; return true; }
    if (n.type == TokenType::op_or)  { for (const auto& c : n.children) if (evalTree(c, val)) return true; return false; }
    return (val >> (n.children.at(0).func.at(1) - 'A')) & 1u;       // comparison: atom F<X>
}
// reference: the grammar of the statement
struct Ref { const std::vector<std::string>& t; std::size_t p; unsigned val;
    bool orE()  { bool v = andE(); while (p < t.size() && t[p] == "OR")  { ++p; bool w = andE(); v = v || w; } return v; }
    bool andE() { bool v = cmp();  while (p < t.size() && t[p] == "AND") { ++p; bool w = cmp();  v = v && w; } return v; }
    bool cmp()  { if (t[p] == "(") { ++p; bool v = orE(); ++p; return v; } bool v = (val >> (t[p][1] - 'A')) & 1u; p += 3; return v; } };
int main(int argc, char** argv)
{
    Replay r(argc, argv);
    std::ostringstream w;
    for (int natoms = 2; natoms <= 4; ++natoms)
        for (unsigned ops = 0; ops < (1u << (natoms - 1)); ++ops)
            for (int lp = -1; lp < natoms; ++lp) for (int rp = (lp < 0 ? -1 : lp + 1); rp < (lp < 0 ? 0 : natoms); ++rp) {
                std::vector<std::string> tok; std::string text;
                for (int a = 0; a < natoms; ++a) {
                    if (a == lp) tok.push_back("(");
                    tok.push_back(std::string("F") + char('A' + a)); tok.push_back(">"); tok.push_back("1");
                    if (a == rp) tok.push_back(")");
                    if (a + 1 < natoms) tok.push_back((ops >> a) & 1u ? "AND" : "OR");
                }
                for (const auto& s : tok) text += s + " ";
                ASTNode tree;
                try { tree = Opm::Action::Parser::parse(tok); }
                catch (const std::exception& e) { w << "condition '" << text << "' is rejected: " << e.what(); return r.verdict(false, w.str()); }
                for (unsigned val = 0; val < (1u << natoms); ++val) {
                    Ref ref{tok, 0, val};
                    const bool expect = ref.orE(), got = evalTree(tree, val);
                    if (expect != got) {
                        w << "condition '" << text << "' with";
                        for (int a = 0; a < natoms; ++a) w << " F" << char('A' + a) << (((val >> a) & 1u) ? "=true" : "=false");
                        w << ": the parsed tree evaluates to " << got << ", AND-before-OR gives " << expect;
                        return r.verdict(false, w.str());
                    }
                }
            }
    return r.verdict(true, "every condition with up to 4 comparisons parses to the AND-before-OR value (bounded native search)");
}
