// REPLAY_SEARCH
// Native replay for C20/text and C01/linekernels: the verifier's counterexample is a ghost text buffer, so the driver
// searches the real kernels (Parser.cpp is compiled into this driver from /repo's current source; the kernels have
// internal linkage) on every string of length <= 6 over the alphabet { a, space, '-', ', ", /, comma } (getline: plus
// newline) and compares with an independent reference of the contracts: strip_comments cuts at the first "--" outside
// quotes (an unbalanced quote protects the rest of the line), trim removes separators at both ends only, getline splits
// at the first newline.  Exit 1 = a string on which the real code disagrees (printed).
#include <opm/input/eclipse/Parser/Parser.cpp>
#include "replay.hpp"
#include <sstream>
namespace {
bool sep(char c) { const int x = c & 0x7f; return x == 1 || x == ' ' || x == ',' || x == '\r' || x == '\n' || x == '\t' || x == '\v' || x == '\f'; }
bool quote(char c) { const int x = c & 0x7f; return x == '\'' || x == '"'; }
std::size_t refStrip(const std::string& s)
{
    char q = 0;
    for (std::size_t i = 0; i < s.size(); ++i) {
        if (q) { if (s[i] == q) q = 0; continue; }
        if (s[i] == '-' && i + 1 < s.size() && s[i + 1] == '-') return i;
        if (quote(s[i])) {
            // an opening quote without a partner protects everything after it
            if (s.find(s[i], i + 1) == std::string::npos) return s.size();
            q = s[i];
        }
    }
    return s.size();
}
std::string show(const std::string& s) { std::string o = "\""; for (char c : s) o += (c == '\n' ? std::string("\\n") : std::string(1, c)); return o + "\""; }
}
int main(int argc, char** argv)
{
    Replay r(argc, argv);
    const std::string alpha = "a -'\"/,";
    std::ostringstream w;
    std::vector<std::string> level{ "" };
    for (int len = 0; len <= 6; ++len) {
        for (const auto& s : level) {
            // strip_comments
            const auto sc = Opm::str::strip_comments(s);
            if (sc.data() != s.data() || sc.size() != refStrip(s)) {
                w << "strip_comments(" << show(s) << ") keeps " << sc.size() << " characters, the first comment outside quotes starts at " << refStrip(s);
                return r.verdict(false, w.str());
            }
            // del_after_first_slash: everything up to and including the first slash outside quotes (an unbalanced quote
            // protects the rest of the line); the whole line if there is none
            {
                std::size_t keep = s.size(); char q = 0;
                for (std::size_t i = 0; i < s.size(); ++i) {
                    if (q) { if (s[i] == q) q = 0; continue; }
                    if (s[i] == '/') { keep = i + 1; break; }
                    if (quote(s[i])) { if (s.find(s[i], i + 1) == std::string::npos) break; q = s[i]; }
                }
                const auto cut = Opm::str::del_after_first_slash(s);
                if (cut.data() != s.data() || cut.size() != keep) {
                    w << "del_after_first_slash(" << show(s) << ") keeps " << cut.size() << " characters, the record ends after " << keep;
                    return r.verdict(false, w.str());
                }
            }
            // trim
            std::size_t b = 0, e = s.size();
            while (b < e && sep(s[b])) ++b;
            while (e > b && sep(s[e - 1])) --e;
            const auto tr = Opm::str::trim(s);
            if (tr.size() != e - b || (tr.size() && tr.data() != s.data() + b)) {
                w << "trim(" << show(s) << ") returns a view of " << tr.size() << " characters at offset " << (tr.data() - s.data()) << ", expected " << show(s.substr(b, e - b));
                return r.verdict(false, w.str());
            }
            // getline on s with newlines in place of '/' and a terminating newline
            std::string t = s; for (auto& c : t) if (c == '/') c = '\n';
            t += '\n';
            std::string_view in(t), line;
            std::size_t pos = 0;
            while (Opm::str::getline(in, line)) {
                const auto nl = t.find('\n', pos);
                if (line.data() != t.data() + pos || line.size() != nl - pos) {
                    w << "getline on " << show(t) << " at offset " << pos << " returned a view of " << line.size() << " characters, expected " << show(t.substr(pos, nl - pos));
                    return r.verdict(false, w.str());
                }
                pos = nl + 1;
            }
            if (pos != t.size()) { w << "getline stopped at offset " << pos << " of " << show(t); return r.verdict(false, w.str()); }
        }
        std::vector<std::string> next;
        if (len < 6) for (const auto& s : level) for (char c : alpha) next.push_back(s + c);
        level.swap(next);
    }
    return r.verdict(true, "strip_comments / trim / getline agree with the reference on every string of length <= 6 over the test alphabet (bounded native search)");
}
