// REPLAY_SEARCH
// Native replay for C16/addyn (dynamically sized Evaluation): the verifier's counterexample is a symbolic-length vector
// and an arbitrary slot; the driver instead evaluates the real operators for sizes 1..6 on fixed rational test values
// and compares every slot with the chain rule.  Exit 1 = a size / slot on which the real code disagrees.
#include "replay.hpp"
#include <opm/material/densead/Evaluation.hpp>
#include <opm/material/densead/DynamicEvaluation.hpp>
#include <sstream>
using E = Opm::DenseAd::Evaluation<double, Opm::DenseAd::DynamicSize, 8u>;
static E make(int n, double v, int seed) { E e(n, v); for (int i = 0; i < n; ++i) e.setDerivative(i, 0.5 * ((i * 7 + seed * 3) % 11) - 2.25); return e; }
int main(int argc, char** argv)
{
    Replay r(argc, argv);
    std::ostringstream w;
    for (int n = 1; n <= 6; ++n) {
        const E a = make(n, 1.5, 1), b = make(n, -2.25, 2);
        const double u = a.value(), v = b.value();
        struct { const char* name; E got; } ops[] = {
            { "add", a + b }, { "sub", a - b }, { "mul", a * b }, { "div", a / b }, { "neg", -a },
            { "add_c", a + 3.0 }, { "sub_c", a - 3.0 }, { "mul_c", a * 3.0 }, { "div_c", a / 4.0 },
        };
        for (const auto& op : ops) {
            const std::string nm = op.name;
            for (int i = -1; i < n; ++i) {
                const double du = i < 0 ? 0 : a.derivative(i), dv = i < 0 ? 0 : b.derivative(i);
                double expect;
                if (nm == "add") expect = i < 0 ? u + v : du + dv;
                else if (nm == "sub") expect = i < 0 ? u - v : du - dv;
                else if (nm == "mul") expect = i < 0 ? u * v : du * v + u * dv;
                else if (nm == "div") expect = i < 0 ? u / v : (du * v - u * dv) / (v * v);
                else if (nm == "neg") expect = i < 0 ? -u : -du;
                else if (nm == "add_c") expect = i < 0 ? u + 3.0 : du;
                else if (nm == "sub_c") expect = i < 0 ? u - 3.0 : du;
                else if (nm == "mul_c") expect = i < 0 ? u * 3.0 : du * 3.0;
                else expect = i < 0 ? u / 4.0 : du / 4.0;
                const double got = i < 0 ? op.got.value() : op.got.derivative(i);
                if (op.got.size() != n || !Replay::close(got, expect)) {
                    w << "dynamic Evaluation with " << n << " derivatives, operation " << nm << ", " << (i < 0 ? std::string("value") : "derivative slot " + std::to_string(i))
                      << ": " << got << ", chain rule: " << expect;
                    return r.verdict(false, w.str());
                }
            }
        }
    }
    return r.verdict(true, "all operators agree with the chain rule for 1..6 derivatives (bounded native search)");
}
