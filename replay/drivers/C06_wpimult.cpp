// REPLAY_SOURCES: opm/input/eclipse/Schedule/Well/WellConnections.cpp opm/input/eclipse/Schedule/Well/Connection.cpp
// REPLAY_SEARCH
// Native replay for C06/wpimult and C06/wpimult_all: a well with four connections; every subset is made subject to
// WELPI scaling (prepareWellPIScaling on the connection), every applicability mask (shorter, equal and longer than the
// connection list) is passed to the real WellConnections::applyWellPIScaling with factor 2.5: exactly the connections
// that are flagged applicable (or beyond the mask) AND subject must have CF multiplied, all others and every other
// attribute (completion number, Kh, order) unchanged.
#include "replay.hpp"
#include <opm/input/eclipse/Schedule/Well/WellConnections.hpp>
#include <opm/input/eclipse/Schedule/Well/Connection.hpp>
#include <sstream>
#include <vector>
int main(int argc, char** argv)
{
    Replay r(argc, argv);
    std::ostringstream w;
    const int N = 4;
    for (unsigned subj = 0; subj < (1u << N); ++subj)
        for (int masklen = 0; masklen <= N + 1; ++masklen)
            for (unsigned mask = 0; mask < (1u << masklen); ++mask) {
                Opm::WellConnections wc(Opm::Connection::Order::INPUT, 1, 1);
                for (int c = 0; c < N; ++c) {
                    Opm::Connection::CTFProperties p{}; p.CF = 10.0 + c; p.Kh = 100.0 + c; p.rw = 0.1; p.r0 = 1.0; p.skin_factor = 0.0;
                    wc.addConnection(1, 1, c, 100 + c, Opm::Connection::State::OPEN, 1000.0 + c, p, 1);
                }
                std::vector<Opm::Connection> before;
                for (int c = 0; c < N; ++c) { if ((subj >> c) & 1u) wc.getFromIJK(1, 1, c).prepareWellPIScaling(); before.push_back(wc.get(c)); }
                std::vector<bool> appl(masklen);
                for (int c = 0; c < masklen; ++c) appl[c] = (mask >> c) & 1u;
                wc.applyWellPIScaling(2.5, appl);
                if (wc.size() != std::size_t(N)) { w << "number of connections changed"; return r.verdict(false, w.str()); }
                for (int c = 0; c < N; ++c) {
                    const bool targeted = ((subj >> c) & 1u) && (c >= masklen || ((mask >> c) & 1u));
                    const auto& a = wc.get(c); const auto& b = before[c];
                    const double expect = targeted ? b.CF() * 2.5 : b.CF();
                    if (!Replay::close(a.CF(), expect) || a.complnum() != b.complnum() || a.Kh() != b.Kh() || a.getK() != b.getK()) {
                        w << "connection " << c << " (subject mask " << subj << ", applicability mask " << mask << " of length " << masklen << "): CF " << b.CF() << " -> " << a.CF()
                          << ", expected " << expect << "; complnum " << b.complnum() << " -> " << a.complnum();
                        return r.verdict(false, w.str());
                    }
                }
            }
    return r.verdict(true, "WPIMULT scaling touches exactly the targeted connections for all subject / applicability masks of a 4-connection well (bounded native search)");
}
