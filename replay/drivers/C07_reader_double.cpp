// REPLAY_SOURCES: opm/io/eclipse/EclUtil.cpp
// REPLAY_SEARCH
// Native replay for C07/reader and C08/crash: an unformatted file holding one INTE array of 1500 elements (two
// blocks) is cut short at every byte inside the array data and read back with the real readBinaryInteArray (through
// EclFile).  (a) every truncation must end in an exception, never in data; (b) for three cut points (inside a head
// word, inside the data, inside a tail word) the read is repeated under valgrind memcheck: a conditional jump on the
// indeterminate length word left behind by the short read is the failure.  Exit 1 = failure on the real code.
#include "replay.hpp"
#include <opm/io/eclipse/EclFile.hpp>
#include <opm/io/eclipse/EclOutput.hpp>
#include <filesystem>
#include <sstream>
#include <sys/wait.h>
#include <unistd.h>
namespace fs = std::filesystem;
static const std::size_t N = 1500;
static int readOnce(const std::string& file)          // 0 = exception, 1 = returned data, 2 = returned wrong size
{
    try {
        Opm::EclIO::EclFile f(file);
        const auto& v = f.get<int>("DATA");
        return v.size() == N ? 1 : 2;
    } catch (const std::exception&) { return 0; }
}
int main(int argc, char** argv)
{
    if (argc > 2 && std::string(argv[1]) == "--child") { (void) readOnce(argv[2]); return 0; }
    if (argc > 2 && std::string(argv[1]) == "--child-data") {          // 0 = exception (good), 1 = data returned
        try { Opm::EclIO::EclFile f(argv[2]); const auto& v = f.get<int>("DATA"); (void) v; return 1; } catch (const std::exception&) { return 0; }
    }
    Replay r(argc, argv);
    const auto dir = fs::temp_directory_path() / ("verif_c07r_" + std::to_string(::getpid()));
    fs::create_directories(dir);
    const std::string full = (dir / "full.bin").string(), cut = (dir / "cut.bin").string();
    { std::vector<int> d(N); for (std::size_t i = 0; i < N; ++i) d[i] = int(i) * 3 - 7; Opm::EclIO::EclOutput out(full, false); out.write("DATA", d); }
    const auto size = fs::file_size(full);            // 24 + 4 + 4000 + 4 + 4 + 2000 + 4
    std::ostringstream w; int wrong = 0; std::size_t firstWrong = 0;
    if (readOnce(full) != 1) { std::cerr << "replay: the complete file does not read back\n"; return 3; }
    for (std::size_t len = 24; len < size; ++len) {
        fs::copy_file(full, cut, fs::copy_options::overwrite_existing); fs::resize_file(cut, len);
        if (readOnce(cut) != 0) { if (!wrong) firstWrong = len; ++wrong; }
    }
    int vgerr = 0; std::string where;
    for (std::size_t len : { std::size_t(26), std::size_t(24 + 4 + 1000), std::size_t(24 + 4 + 4000 + 2), std::size_t(size - 2) }) {
        fs::copy_file(full, cut, fs::copy_options::overwrite_existing); fs::resize_file(cut, len);
        const pid_t pid = fork();
        if (pid == 0) { execlp("valgrind", "valgrind", "-q", "--error-exitcode=9", argv[0], "--child", cut.c_str(), (char*)nullptr); _exit(3); }
        int st = 0; waitpid(pid, &st, 0);
        if (WIFEXITED(st) && WEXITSTATUS(st) == 9) { ++vgerr; where += " " + std::to_string(len); }
    }
    // (c) a block length word that claims more elements than the array header leaves (but at most 1000): must be rejected
    //     with an exception and without touching memory outside the result vector
    int lied = 0;
    {
        const std::string small = (dir / "small.bin").string(), bad = (dir / "bad.bin").string();
        { std::vector<int> d(10, 7); Opm::EclIO::EclOutput out(small, false); out.write("DATA", d); }
        std::ifstream is(small, std::ios::binary); std::vector<char> b((std::istreambuf_iterator<char>(is)), {});
        b[24] = 0; b[25] = 0; b[26] = 0; b[27] = char(248);          // head word: 62 ints instead of 10
        { std::ofstream os(bad, std::ios::binary); os.write(b.data(), b.size()); }
        const pid_t pid = fork();
        if (pid == 0) { execlp("valgrind", "valgrind", "-q", "--error-exitcode=9", argv[0], "--child-data", bad.c_str(), (char*)nullptr); _exit(3); }
        int st = 0; waitpid(pid, &st, 0);
        if (WIFSIGNALED(st) || (WIFEXITED(st) && WEXITSTATUS(st) != 0)) lied = WIFSIGNALED(st) ? 2 : (WEXITSTATUS(st) == 9 ? 3 : 1);
    }
    fs::remove_all(dir);
    w << "unformatted INTE array of " << N << " elements cut short at every byte: " << wrong << " truncations returned data instead of raising an error";
    if (wrong) w << " (first at length " << firstWrong << ")";
    w << "; valgrind memcheck " << (vgerr ? "reports use of uninitialised values (the length word left behind by the short read) for files cut at byte(s)" + where : std::string("is clean on the sampled cut points"));
    w << "; a block length word larger than the rest of the array is " << (lied == 0 ? "rejected with an exception"
         : lied == 1 ? "ACCEPTED (data returned)" : lied == 2 ? "fatal (signal)" : "rejected only after valgrind reports invalid memory accesses (write past the result vector)");
    return r.verdict(wrong == 0 && vgerr == 0 && lied == 0, w.str());
}
