// REPLAY_SEARCH
// The helper functions of WellConnections.cpp have internal linkage: the driver includes the CURRENT source file.
// Without a counterexample to decode (bounded native search, used when the proof of the unit is undecided) a 3x3x3 model
// with layer-dependent DZ / PERMX / PERMY / PERMZ / NTG goes through the real parser and Schedule: COMPDAT records that
// span several layers (Z and X direction, CF / Kh / r0 defaulted, with skin) must give every connection the Peaceman
// values of ITS OWN cell, computed independently here.
#include "replay.hpp"
#include <opm/input/eclipse/Schedule/Well/WellConnections.cpp>
#include <opm/input/eclipse/Deck/Deck.hpp>
#include <opm/input/eclipse/EclipseState/EclipseState.hpp>
#include <opm/input/eclipse/Parser/Parser.hpp>
#include <opm/input/eclipse/Python/Python.hpp>
#include <opm/input/eclipse/Schedule/Schedule.hpp>
#include <opm/input/eclipse/Schedule/Well/Well.hpp>
#include <sstream>
namespace {
int nativeSearch(const Replay& r)
{
    const double dx = 100, dy = 80, dz[3] = {5, 10, 20}, kx[3] = {100, 200, 400}, ky[3] = {50, 300, 100}, kz[3] = {10, 20, 5}, ntg[3] = {1, 0.5, 0.8};
    const std::string deck_text =
        "RUNSPEC\nDIMENS\n 3 3 3 /\nOIL\nWATER\nGAS\nMETRIC\nSTART\n 1 'JAN' 2020 /\nWELLDIMS\n 2 10 2 2 /\nGRID\nDXV\n 3*100 /\nDYV\n 3*80 /\nDZV\n 5 10 20 /\nTOPS\n 9*2000 /\n"
        "PERMX\n 9*100 9*200 9*400 /\nPERMY\n 9*50 9*300 9*100 /\nPERMZ\n 9*10 9*20 9*5 /\nPORO\n 27*0.3 /\nNTG\n 9*1 9*0.5 9*0.8 /\n"
        "SCHEDULE\nWELSPECS\n 'W1' 'G' 1 1 1* 'OIL' /\n 'W2' 'G' 3 3 1* 'OIL' /\n/\nCOMPDAT\n 'W1' 1 1 1 3 'OPEN' 1* 1* 0.2 1* 1.5 1* 'Z' /\n 'W2' 3 3 1 3 'OPEN' 1* 1* 0.3 1* -0.5 1* 'X' /\n/\nTSTEP\n 1 /\n";
    std::ostringstream w; w.precision(12);
    try {
        const auto deck = Opm::Parser{}.parseString(deck_text);
        const Opm::EclipseState es(deck);
        const Opm::Schedule sched(deck, es, std::make_shared<Opm::Python>());
        const double mD = 9.869232667160128e-16;
        for (const char* wn : {"W1", "W2"}) {
            const bool zdir = std::string(wn) == "W1";
            const double rw = (zdir ? 0.2 : 0.3) / 2, skin = zdir ? 1.5 : -0.5;
            const auto& conns = sched.getWell(wn, 0).getConnections();
            if (conns.size() != 3) return r.verdict(false, std::string(wn) + ": expected 3 connections");
            for (const auto& c : conns) {
                const int k = c.getK();
                // direction Z: (K0,K1) = (kx,ky), (D0,D1,D2) = (dx,dy,dz*ntg); direction X: (K0,K1) = (ky,kz), (D0,D1,D2) = (dy, dz*ntg, dx)
                const double K0 = (zdir ? kx[k] : ky[k]) * mD, K1 = (zdir ? ky[k] : kz[k]) * mD;
                const double D0 = zdir ? dx : dy, D1 = zdir ? dy : dz[k] * ntg[k], D2 = zdir ? dz[k] * ntg[k] : dx;
                const double r0 = 0.28 * std::sqrt(D0*D0*std::sqrt(K1/K0) + D1*D1*std::sqrt(K0/K1)) / (std::pow(K0/K1, 0.25) + std::pow(K1/K0, 0.25));
                const double Kh = std::sqrt(K0 * K1) * D2;
                const double CF = 2 * M_PI * Kh / (std::log(r0 / rw) + skin);
                if (!Replay::close(c.r0(), r0, 1.0) || !Replay::close(c.Kh(), Kh, Kh) || !Replay::close(c.CF(), CF, CF)) {
                    w << wn << " layer " << k + 1 << " (one COMPDAT record for layers 1-3): r0 = " << c.r0() << " (Peaceman for this cell: " << r0 << "), Kh = " << c.Kh() << " (" << Kh
                      << "), CF = " << c.CF() << " (" << CF << ")";
                    return r.verdict(false, w.str());
                }
            }
        }
    } catch (const std::exception& e) { return r.verdict(false, std::string("the test model does not load: ") + std::string(e.what()).substr(0, 160)); }
    return r.verdict(true, "every connection of the multi-layer COMPDAT records has the Peaceman values of its own cell (bounded native search)");
}
std::array<double, 3> arr(const Replay& r, const std::string& p) {
    return { r.num(p + ".a[0l]", r.num(p + ".a[0]", 0)), r.num(p + ".a[1l]", r.num(p + ".a[1]", 0)), r.num(p + ".a[2l]", r.num(p + ".a[2]", 0)) };
}
std::array<int, 3> perm_of(int d) { return d == 1 ? std::array<int,3>{1, 2, 0} : d == 2 ? std::array<int,3>{2, 0, 1} : std::array<int,3>{0, 1, 2}; }
}
int main(int argc, char** argv)
{
    Replay r(argc, argv);
    std::ostringstream w; w.precision(17);
    if (r.is("bounded_native_search")) return nativeSearch(r);
    if (r.is("effectiveExtent/")) {
        const int d = r.integer("direction"); const double ntg = r.num("ntg");
        auto ext = r.has("extent.a[0l]") || r.has("extent.a[0]") ? arr(r, "extent") : arr(r, "verif_in_extent");
        const auto got = effectiveExtent(static_cast<Opm::Connection::Direction>(d), ntg, ext);
        std::array<double, 3> e = { ext[0], ext[1], ext[2] * ntg }; const auto p = perm_of(d);
        const std::array<double, 3> want = { e[p[0]], e[p[1]], e[p[2]] };
        w << "direction " << d << " ntg " << ntg << " extent (" << ext[0] << "," << ext[1] << "," << ext[2] << ") -> (" << got[0] << "," << got[1] << "," << got[2]
          << "), expected NTG on DZ then permute: (" << want[0] << "," << want[1] << "," << want[2] << ")";
        return r.verdict(Replay::close(got[0], want[0]) && Replay::close(got[1], want[1]) && Replay::close(got[2], want[2]), w.str());
    }
    if (r.is("permComponents/")) {
        const int d = r.integer("direction"); const auto pm = arr(r, "verif_in_perm");
        const auto got = permComponents(static_cast<Opm::Connection::Direction>(d), pm); const auto p = perm_of(d);
        w << "direction " << d << " perm (" << pm[0] << "," << pm[1] << "," << pm[2] << ") -> (" << got[0] << "," << got[1] << "," << got[2] << ")";
        return r.verdict(got[0] == pm[p[0]] && got[1] == pm[p[1]] && got[2] == pm[p[2]], w.str());
    }
    if (r.is("directionIndices/")) {
        const int d = r.integer("direction"); const auto got = directionIndices(static_cast<Opm::Connection::Direction>(d)); const auto p = perm_of(d);
        return r.verdict((int)got[0] == p[0] && (int)got[1] == p[1] && (int)got[2] == p[2], "direction permutation");
    }
    if (r.is("effectiveRadius/")) {
        const auto K = arr(r, "verif_in_K"), D = arr(r, "verif_in_D");
        const double got = effectiveRadius(K, D);
        const double want = 0.28 * std::sqrt(D[0]*D[0]*std::sqrt(K[1]/K[0]) + D[1]*D[1]*std::sqrt(K[0]/K[1])) / (std::pow(K[0]/K[1], 0.25) + std::pow(K[1]/K[0], 0.25));
        w << "r0 = " << got << ", Peaceman: " << want;
        return r.verdict(Replay::close(got, want), w.str());
    }
    std::cerr << "no native replay for this obligation\n";
    return 3;
}
