// The helper functions of WellConnections.cpp have internal linkage: the driver includes the CURRENT source file.
#include "replay.hpp"
#include <opm/input/eclipse/Schedule/Well/WellConnections.cpp>
#include <sstream>
namespace {
std::array<double, 3> arr(const Replay& r, const std::string& p) {
    return { r.num(p + ".a[0l]", r.num(p + ".a[0]", 0)), r.num(p + ".a[1l]", r.num(p + ".a[1]", 0)), r.num(p + ".a[2l]", r.num(p + ".a[2]", 0)) };
}
std::array<int, 3> perm_of(int d) { return d == 1 ? std::array<int,3>{1, 2, 0} : d == 2 ? std::array<int,3>{2, 0, 1} : std::array<int,3>{0, 1, 2}; }
}
int main(int argc, char** argv)
{
    Replay r(argc, argv);
    std::ostringstream w; w.precision(17);
    if (r.is("effectiveExtent/")) {
        const int d = r.integer("direction"); const double ntg = r.num("ntg");
        auto ext = r.has("extent.a[0l]") || r.has("extent.a[0]") ? arr(r, "extent") : arr(r, "verif_in_extent");
        const auto got = effectiveExtent(static_cast<Opm::Connection::Direction>(d), ntg, ext);
        std::array<double, 3> e = { ext[0], ext[1], ext[2] * ntg }; const auto p = perm_of(d);
        const std::array<double, 3> want = { e[p[0]], e[p[1]], e[p[2]] };
        w << "direction " << d << " ntg " << ntg << " extent (" << ext[0] << "," << ext[1] << "," << ext[2] << ") -> (" << got[0] << "," << got[1] << "," << got[2]
          << "), expected NTG on DZ then permute: (" << want[0] << "," << want[1] << "," << want[2] << ")";
        return r.verdict(Replay::close(got[0], want[0]) && Replay::close(got[1], want[1]) && Replay::close(got[2], want[2]), w.str());
    }
    if (r.is("permComponents/")) {
        const int d = r.integer("direction"); const auto pm = arr(r, "verif_in_perm");
        const auto got = permComponents(static_cast<Opm::Connection::Direction>(d), pm); const auto p = perm_of(d);
        w << "direction " << d << " perm (" << pm[0] << "," << pm[1] << "," << pm[2] << ") -> (" << got[0] << "," << got[1] << "," << got[2] << ")";
        return r.verdict(got[0] == pm[p[0]] && got[1] == pm[p[1]] && got[2] == pm[p[2]], w.str());
    }
    if (r.is("directionIndices/")) {
        const int d = r.integer("direction"); const auto got = directionIndices(static_cast<Opm::Connection::Direction>(d)); const auto p = perm_of(d);
        return r.verdict((int)got[0] == p[0] && (int)got[1] == p[1] && (int)got[2] == p[2], "direction permutation");
    }
    if (r.is("effectiveRadius/")) {
        const auto K = arr(r, "verif_in_K"), D = arr(r, "verif_in_D");
        const double got = effectiveRadius(K, D);
        const double want = 0.28 * std::sqrt(D[0]*D[0]*std::sqrt(K[1]/K[0]) + D[1]*D[1]*std::sqrt(K[0]/K[1])) / (std::pow(K[0]/K[1], 0.25) + std::pow(K[1]/K[0], 0.25));
        w << "r0 = " << got << ", Peaceman: " << want;
        return r.verdict(Replay::close(got, want), w.str());
    }
    std::cerr << "no native replay for this obligation\n";
    return 3;
}
