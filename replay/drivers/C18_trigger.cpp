// REPLAY_SOURCES: opm/input/eclipse/Schedule/Action/ActionX.cpp opm/input/eclipse/Schedule/Action/State.cpp
// REPLAY_SEARCH
// Native replay for C18/trigger: every combination of max_run in 0..3, min_wait in {0, 5, 7}, start time in {0, 10} is
// simulated over report times 0, 3, 6, ..., 45 with the real ActionX::ready / Action::State::add_run (the condition is
// taken to hold whenever ready() says the action may run).  Checked at every step: ready() equals the limit formula of
// the statement, and over the history: never more than max_run runs, never before start, never sooner than min_wait
// after the previous run.  Exit 1 = a configuration on which the real code breaks a limit.
#include "replay.hpp"
#include <opm/input/eclipse/Schedule/Action/ActionX.hpp>
#include <opm/input/eclipse/Schedule/Action/ActionResult.hpp>
#include <opm/input/eclipse/Schedule/Action/State.hpp>
#include <sstream>
int main(int argc, char** argv)
{
    Replay r(argc, argv);
    std::ostringstream w;
    for (std::size_t max_run = 0; max_run <= 3; ++max_run)
        for (double min_wait : {0.0, 5.0, 7.0})
            for (std::time_t start : {std::time_t(0), std::time_t(10)}) {
                const Opm::Action::ActionX act("A", max_run, min_wait, start);
                Opm::Action::State st;
                std::size_t runs = 0; std::time_t last = 0;
                for (std::time_t t = 0; t <= 45; t += 3) {
                    const bool expect = runs < max_run && t >= start && (runs == 0 || min_wait <= 0 || double(t - last) >= min_wait);
                    const bool got = act.ready(st, t);
                    if (got != expect || st.run_count(act) != runs) {
                        w << "max_run=" << max_run << " min_wait=" << min_wait << " start=" << start << " t=" << t << " after " << runs << " runs (last at " << last
                          << "): ready() = " << got << ", limits give " << expect;
                        return r.verdict(false, w.str());
                    }
                    if (got) { st.add_run(act, t, Opm::Action::Result{true}); ++runs; last = t; }
                }
            }
    return r.verdict(true, "ready() equals the limit formula and no limit is exceeded on all simulated histories (bounded native search)");
}
