// REPLAY_SOURCES: opm/input/eclipse/EclipseState/Grid/EclipseGrid.cpp
// REPLAY_SEARCH
// Native replay for C13/zcorn: valid corner-point depth arrays for nx x ny x nz grids (1..3 each) whose top surface is
// flat, rises or falls steeply along i and j (by more than the total thickness), with depth increasing with k and with
// depth decreasing with k, with and without vertical gaps between layers, are given to the real ZcornMapper:
// validZCORN must accept them and fixupZCORN must change nothing and report 0 adjusted cells.
#include "replay.hpp"
#include <opm/input/eclipse/EclipseState/Grid/EclipseGrid.hpp>
#include <sstream>
#include <vector>
int main(int argc, char** argv)
{
    Replay r(argc, argv);
    std::ostringstream w;
    for (std::size_t nx = 1; nx <= 3; ++nx) for (std::size_t ny = 1; ny <= 3; ++ny) for (std::size_t nz = 1; nz <= 3; ++nz)
    for (double slope_i : {0.0, 15.0, -15.0}) for (double slope_j : {0.0, 10.0, -25.0}) for (int dir : {1, -1}) for (double gap : {0.0, 0.5}) {
        const Opm::ZcornMapper m(nx, ny, nz);
        std::vector<double> z(m.size(), 0.0);
        for (std::size_t k = 0; k < nz; ++k) for (std::size_t j = 0; j < ny; ++j) for (std::size_t i = 0; i < nx; ++i) for (int c = 0; c < 8; ++c) {
            const double px = i + (c & 1), py = j + ((c >> 1) & 1);              // pillar of this corner
            const double top = 2000.0 + slope_i * px + slope_j * py;
            const double dz = 4.0, below = k * (dz + gap) + ((c >> 2) & 1) * dz;  // depth below the top surface
            z[m.index(i, j, k, c)] = top + dir * below;
        }
        const auto z0 = z;
        Opm::ZcornMapper mm(nx, ny, nz);
        const bool valid = mm.validZCORN(z);
        const std::size_t adjusted = mm.fixupZCORN(z);
        if (!valid || adjusted != 0 || z != z0) {
            w << nx << "x" << ny << "x" << nz << " grid, top surface slope " << slope_i << " / " << slope_j << " per pillar, depth " << (dir > 0 ? "increasing" : "decreasing")
              << " with k, layer gap " << gap << ": validZCORN = " << valid << ", fixupZCORN adjusted " << adjusted << " corners of a valid grid";
            return r.verdict(false, w.str());
        }
    }
    return r.verdict(true, "validZCORN accepts and fixupZCORN leaves alone every valid test grid (bounded native search)");
}
