// (C20_text.cpp plus the keyword-name checks at the end)
// REPLAY_SEARCH
// Native replay for C20/text and C01/linekernels: the verifier's counterexample is a ghost text buffer, so the driver
// searches the real kernels (Parser.cpp is compiled into this driver from /repo's current source; the kernels have
// internal linkage) on every string of length <= 6 over the alphabet { a, space, '-', ', ", /, comma } (getline: plus
// newline) and compares with an independent reference of the contracts: strip_comments cuts at the first "--" outside
// quotes (an unbalanced quote protects the rest of the line), trim removes separators at both ends only, getline splits
// at the first newline.  make_deck_name is the upper-cased first word of a line; a deck with one keyword of every size
// class parses to the same Deck whichever keyword names are written in lower case.  Exit 1 = an input on which the real
// code disagrees (printed).
#include <opm/input/eclipse/Parser/Parser.cpp>
#include "replay.hpp"
#include <cctype>
#include <sstream>
namespace {
bool sep(char c) { const int x = c & 0x7f; return x == 1 || x == ' ' || x == ',' || x == '\r' || x == '\n' || x == '\t' || x == '\v' || x == '\f'; }
bool quote(char c) { const int x = c & 0x7f; return x == '\'' || x == '"'; }
std::size_t refStrip(const std::string& s)
{
    char q = 0;
    for (std::size_t i = 0; i < s.size(); ++i) {
        if (q) { if (s[i] == q) q = 0; continue; }
        if (s[i] == '-' && i + 1 < s.size() && s[i + 1] == '-') return i;
        if (quote(s[i])) {
            // an opening quote without a partner protects everything after it
            if (s.find(s[i], i + 1) == std::string::npos) return s.size();
            q = s[i];
        }
    }
    return s.size();
}
std::string show(const std::string& s) { std::string o = "\""; for (char c : s) o += (c == '\n' ? std::string("\\n") : std::string(1, c)); return o + "\""; }
}
int main(int argc, char** argv)
{
    Replay r(argc, argv);
    const std::string alpha = "a -'\"/,";
    std::ostringstream w;
    std::vector<std::string> level{ "" };
    for (int len = 0; len <= 6; ++len) {
        for (const auto& s : level) {
            // strip_comments
            const auto sc = Opm::str::strip_comments(s);
            if (sc.data() != s.data() || sc.size() != refStrip(s)) {
                w << "strip_comments(" << show(s) << ") keeps " << sc.size() << " characters, the first comment outside quotes starts at " << refStrip(s);
                return r.verdict(false, w.str());
            }
            // del_after_first_slash: everything up to and including the first slash outside quotes (an unbalanced quote
            // protects the rest of the line); the whole line if there is none
            {
                std::size_t keep = s.size(); char q = 0;
                for (std::size_t i = 0; i < s.size(); ++i) {
                    if (q) { if (s[i] == q) q = 0; continue; }
                    if (s[i] == '/') { keep = i + 1; break; }
                    if (quote(s[i])) { if (s.find(s[i], i + 1) == std::string::npos) break; q = s[i]; }
                }
                const auto cut = Opm::str::del_after_first_slash(s);
                if (cut.data() != s.data() || cut.size() != keep) {
                    w << "del_after_first_slash(" << show(s) << ") keeps " << cut.size() << " characters, the record ends after " << keep;
                    return r.verdict(false, w.str());
                }
            }
            // trim
            std::size_t b = 0, e = s.size();
            while (b < e && sep(s[b])) ++b;
            while (e > b && sep(s[e - 1])) --e;
            const auto tr = Opm::str::trim(s);
            if (tr.size() != e - b || (tr.size() && tr.data() != s.data() + b)) {
                w << "trim(" << show(s) << ") returns a view of " << tr.size() << " characters at offset " << (tr.data() - s.data()) << ", expected " << show(s.substr(b, e - b));
                return r.verdict(false, w.str());
            }
            // getline on s with newlines in place of '/' and a terminating newline
            std::string t = s; for (auto& c : t) if (c == '/') c = '\n';
            t += '\n';
            std::string_view in(t), line;
            std::size_t pos = 0;
            while (Opm::str::getline(in, line)) {
                const auto nl = t.find('\n', pos);
                if (line.data() != t.data() + pos || line.size() != nl - pos) {
                    w << "getline on " << show(t) << " at offset " << pos << " returned a view of " << line.size() << " characters, expected " << show(t.substr(pos, nl - pos));
                    return r.verdict(false, w.str());
                }
                pos = nl + 1;
            }
            if (pos != t.size()) { w << "getline stopped at offset " << pos << " of " << show(t); return r.verdict(false, w.str()); }
        }
        std::vector<std::string> next;
        if (len < 6) for (const auto& s : level) for (char c : alpha) next.push_back(s + c);
        level.swap(next);
    }
    // make_deck_name: the first word of the line, upper-cased
    for (const std::string& l : { std::string("welspecs"), std::string("Poro  1 2"), std::string("swof\t"), std::string("EQUALS"), std::string("a,b"), std::string("") }) {
        std::string e;
        for (char c : l) { if (sep(c)) break; e += static_cast<char>(std::toupper(static_cast<unsigned char>(c))); }
        if (Opm::str::make_deck_name(l) != e) {
            w << "make_deck_name(" << show(l) << ") = " << show(Opm::str::make_deck_name(l)) << ", the upper-cased first word is " << show(e);
            return r.verdict(false, w.str());
        }
    }
    // keyword-name case: one keyword of every size class (fixed, flag, data array, table, slash-terminated list,
    // record-less, terminated only by the next keyword), each name written in lower case in turn, and all at once
    {
        const std::vector<std::string> lines = {
            "RUNSPEC", "DIMENS", " 2 2 1 /", "OIL", "WATER", "GAS", "TABDIMS", " 1 1 /", "GRID", "PORO", " 4*0.25 /", "EQUALS", " 'PERMX' 100 /", "/", "PROPS", "SWOF",
            " 0 0 1 0", " 1 1 0 0 /", "SCHEDULE", "VFPPROD", " 1 2000 'LIQ' 'WCT' 'GOR' /", " 100 200 /", " 10 /", " 0 /", " 0 /", " 0 /", " 1 1 1 1 50 60 /",
            "WELSPECS", " 'P' 'G' 1 1 1* 'OIL' /", "/", "SAVE", "TSTEP", " 1 /", "VFPINJ", " 2 2000 'WAT' /", " 100 200 /", " 10 /", " 1 50 60 /", "TSTEP", " 2 /", "END" };
        auto is_kw = [](const std::string& l) { return !l.empty() && std::isalpha(static_cast<unsigned char>(l[0])); };
        auto render = [&](const std::vector<bool>& lower, std::string& out) {
            std::string text;
            for (std::size_t i = 0; i < lines.size(); ++i) {
                std::string l = lines[i];
                if (lower[i]) for (char& c : l) c = static_cast<char>(std::tolower(static_cast<unsigned char>(c)));
                text += l + "\n";
            }
            try {
                const auto deck = Opm::Parser{}.parseString(text);
                std::ostringstream os; os << deck; out = os.str();
                return true;
            } catch (const std::exception& e) { out = std::string("parse error: ") + e.what(); return false; }
        };
        std::string ref;
        if (!render(std::vector<bool>(lines.size(), false), ref))
            return r.verdict(false, "the reference deck (upper-case keyword names) does not parse: " + ref.substr(0, 160));
        for (std::size_t v = 0; v <= lines.size(); ++v) {
            std::vector<bool> lower(lines.size(), false);
            if (v == lines.size()) { for (std::size_t i = 0; i < lines.size(); ++i) lower[i] = is_kw(lines[i]); }
            else { if (!is_kw(lines[v])) continue; lower[v] = true; }
            std::string got;
            const bool parsed = render(lower, got);
            if (!parsed || got != ref) {
                w << "the deck with " << (v == lines.size() ? std::string("every keyword name") : "keyword " + lines[v]) << " written in lower case "
                  << (parsed ? "parses to a different Deck" : "does not parse (" + got.substr(0, 120) + ")");
                return r.verdict(false, w.str());
            }
        }
    }
    return r.verdict(true, "strip_comments / trim / getline agree with the reference on every string of length <= 6 over the test alphabet (bounded native search)");
}
