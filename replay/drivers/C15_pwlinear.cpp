// REPLAY_SEARCH
// Native replay for C15/pwlinear: the real PiecewiseLinearTwoPhaseMaterial table evaluation on ascending tables with
// 2..6 nodes (uniform and non-uniform spacing, monotone and non-monotone ordinates): node values reproduced, values
// between nodes within the bracketing node values and equal to the interpolant, end values held outside, derivative =
// slope of the bracketing segment.
#define private public
#include <opm/material/fluidmatrixinteractions/PiecewiseLinearTwoPhaseMaterial.hpp>
#undef private
#include <opm/material/fluidmatrixinteractions/MaterialTraits.hpp>
#include "replay.hpp"
#include <sstream>
#include <vector>
using PL = Opm::PiecewiseLinearTwoPhaseMaterial<Opm::TwoPhaseMaterialTraits<double, 0, 1>>;
int main(int argc, char** argv)
{
    Replay r(argc, argv);
    std::ostringstream w;
    for (int n = 2; n <= 6; ++n)
        for (int variant = 0; variant < 4; ++variant) {
            std::vector<double> x(n), y(n);
            for (int i = 0; i < n; ++i) {
                x[i] = (variant & 1) ? 0.05 + 0.02 * i * i + 0.1 * i : 0.1 + 0.15 * i;
                y[i] = (variant & 2) ? ((i * 5) % 7) / 7.0 : 0.04 * i * (i + 1);
            }
            for (int i = 0; i < n; ++i)
                if (!Replay::close(PL::evalAscending_<double>(x, y, x[i]), y[i], 1.0)) {
                    w << "table with " << n << " nodes (variant " << variant << "): value at node " << i << " is " << PL::evalAscending_<double>(x, y, x[i]) << ", table value " << y[i];
                    return r.verdict(false, w.str());
                }
            if (!Replay::close(PL::evalAscending_<double>(x, y, x[0] - 1.0), y[0], 1.0) || !Replay::close(PL::evalAscending_<double>(x, y, x[n - 1] + 1.0), y[n - 1], 1.0)) {
                w << "table with " << n << " nodes (variant " << variant << "): end values are not held outside the table"; return r.verdict(false, w.str());
            }
            for (int i = 0; i + 1 < n; ++i)
                for (double t : {0.25, 0.5, 0.9}) {
                    const double xx = x[i] + t * (x[i + 1] - x[i]);
                    const double v = PL::evalAscending_<double>(x, y, xx), d = PL::evalDeriv_<double>(x, y, xx);
                    const double lo = std::min(y[i], y[i + 1]), hi = std::max(y[i], y[i + 1]), slope = (y[i + 1] - y[i]) / (x[i + 1] - x[i]);
                    if (v < lo - 1e-12 || v > hi + 1e-12 || !Replay::close(v, y[i] + t * (y[i + 1] - y[i]), 1.0) || !Replay::close(d, slope, 1.0)) {
                        w << "table with " << n << " nodes (variant " << variant << "): at " << xx << " in segment " << i << " value " << v << " (bracket [" << lo << "," << hi << "]), derivative " << d << " (slope " << slope << ")";
                        return r.verdict(false, w.str());
                    }
                }
        }
    return r.verdict(true, "node values, brackets, end values and slopes hold on all test tables (bounded native search)");
}
