// REPLAY_SOURCES: opm/io/eclipse/OutputStream.cpp
// Replays a refuted Restart::openExisting obligation at the level the property speaks about.  The counterexample
// gives the write position; position 0 is "rewind to (or before) the first stored step", a position k > 0 the start
// of a later step.  A unified restart file holding steps 1,2,3 is reopened at the step whose header starts at (or
// nearest to) that position through the real OutputStream::Restart and compared byte for byte with a fresh file
// holding the surviving steps.
#include "replay.hpp"
#include <opm/io/eclipse/OutputStream.hpp>
#include <opm/io/eclipse/EclOutput.hpp>
#include <filesystem>
#include <unistd.h>
#include <iterator>
#include <vector>
using namespace Opm::EclIO::OutputStream;
static void step(const std::string& dir, int s, bool fmt) {
    ResultSet rset{dir, "CASE"};
    Restart r{rset, s, Formatted{fmt}, Unified{true}};
    r.write("INTEHEAD", std::vector<int>{s, 2, 3});
    r.write("PRESSURE", std::vector<float>(7, 1.5f * s));
}
static std::string slurp(const std::string& f) { std::ifstream is(f, std::ios::binary); return {std::istreambuf_iterator<char>(is), {}}; }
int main(int argc, char** argv)
{
    Replay r(argc, argv);
    const long writePos = r.integer("writePos");
    const bool fmt = r.has("formatted") && r.integer("formatted") != 0;
    namespace fs = std::filesystem;
    const auto base = fs::temp_directory_path() / ("verif_c08r_" + std::to_string(::getpid()));
    const std::string ext = fmt ? "FUNRST" : "UNRST";
    int bad = 0; std::string what;
    // the step to rewind to: position 0 <=> first stored step; otherwise try every later step as well
    for (int target : (writePos == 0 ? std::vector<int>{1, 0} : std::vector<int>{2, 3, 1})) {
        const std::string a = (base / ("a" + std::to_string(target))).string(), b = (base / ("b" + std::to_string(target))).string();
        fs::create_directories(a); fs::create_directories(b);
        for (int s : {1, 2, 3}) step(a, s, fmt);
        step(a, target, fmt);
        for (int s = 1; s < target; ++s) step(b, s, fmt);
        step(b, target, fmt);
        const std::string A = slurp(a + "/CASE." + ext), B = slurp(b + "/CASE." + ext);
        if (A != B) {
            ++bad;
            what += "write 1,2,3 then rewind to step " + std::to_string(target) + ": " + std::to_string(A.size()) + " bytes vs "
                  + std::to_string(B.size()) + " bytes in a fresh file with the surviving steps; ";
        }
    }
    fs::remove_all(base);
    return r.verdict(bad == 0, (fmt ? std::string("formatted: ") : std::string("unformatted: ")) + (bad ? what : std::string("all rewinds equal a fresh file")));
}
