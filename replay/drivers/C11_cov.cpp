// Replays a refuted "serializeOp visits <field>" obligation on the real pack/unpack code: an object in which the
// field holds a non-default value (a state the public API can produce: RUNSUM in the SUMMARY section, COMPDAT inside
// an ACTIONX, restart of a run with an extended network) is packed and unpacked with Serializer<MemPacker>; the public
// query that reads the field is compared before and after.
#define private public
#define protected public
#include <opm/input/eclipse/EclipseState/EclipseState.hpp>
#include <opm/input/eclipse/EclipseState/SummaryConfig/SummaryConfig.hpp>
#include <opm/input/eclipse/Schedule/Schedule.hpp>
#undef private
#undef protected
// complete types for every member reached by serializeOp (the list tests/test_Serialization.cpp uses)
#include <opm/common/OpmLog/KeywordLocation.hpp>
#include <opm/output/data/Aquifer.hpp>
#include <opm/output/eclipse/RestartValue.hpp>
#include <opm/input/eclipse/Deck/Deck.hpp>
#include <opm/input/eclipse/Deck/DeckItem.hpp>
#include <opm/input/eclipse/EclipseState/Aquifer/Aquancon.hpp>
#include <opm/input/eclipse/EclipseState/Aquifer/AquiferCT.hpp>
#include <opm/input/eclipse/EclipseState/Aquifer/AquiferConfig.hpp>
#include <opm/input/eclipse/EclipseState/Aquifer/Aquifetp.hpp>
#include <opm/input/eclipse/EclipseState/EclipseConfig.hpp>
#include <opm/input/eclipse/EclipseState/Grid/FaceDir.hpp>
#include <opm/input/eclipse/EclipseState/Grid/Fault.hpp>
#include <opm/input/eclipse/EclipseState/Grid/FaultCollection.hpp>
#include <opm/input/eclipse/EclipseState/Grid/FaultFace.hpp>
#include <opm/input/eclipse/EclipseState/Grid/FIPRegionStatistics.hpp>
#include <opm/input/eclipse/EclipseState/Grid/MULTREGTScanner.hpp>
#include <opm/input/eclipse/EclipseState/Grid/NNC.hpp>
#include <opm/input/eclipse/EclipseState/Grid/TranCalculator.hpp>
#include <opm/input/eclipse/EclipseState/Grid/TransMult.hpp>
#include <opm/input/eclipse/EclipseState/IOConfig/IOConfig.hpp>
#include <opm/input/eclipse/EclipseState/InitConfig/Equil.hpp>
#include <opm/input/eclipse/EclipseState/InitConfig/FoamConfig.hpp>
#include <opm/input/eclipse/EclipseState/InitConfig/InitConfig.hpp>
#include <opm/input/eclipse/EclipseState/Runspec.hpp>
#include <opm/input/eclipse/EclipseState/SimulationConfig/BCConfig.hpp>
#include <opm/input/eclipse/EclipseState/SimulationConfig/DatumDepth.hpp>
#include <opm/input/eclipse/EclipseState/SimulationConfig/RockConfig.hpp>
#include <opm/input/eclipse/EclipseState/SimulationConfig/SimulationConfig.hpp>
#include <opm/input/eclipse/EclipseState/SimulationConfig/ThresholdPressure.hpp>
#include <opm/input/eclipse/EclipseState/SummaryConfig/SummaryConfig.hpp>
#include <opm/input/eclipse/EclipseState/Tables/Aqudims.hpp>
#include <opm/input/eclipse/EclipseState/Tables/ColumnSchema.hpp>
#include <opm/input/eclipse/EclipseState/Tables/DenT.hpp>
#include <opm/input/eclipse/EclipseState/Tables/Eqldims.hpp>
#include <opm/input/eclipse/EclipseState/Tables/EzrokhiTable.hpp>
#include <opm/input/eclipse/EclipseState/Tables/FlatTable.hpp>
#include <opm/input/eclipse/EclipseState/Tables/JFunc.hpp>
#include <opm/input/eclipse/EclipseState/Tables/PlymwinjTable.hpp>
#include <opm/input/eclipse/EclipseState/Tables/PlyshlogTable.hpp>
#include <opm/input/eclipse/EclipseState/Tables/PvtgTable.hpp>
#include <opm/input/eclipse/EclipseState/Tables/PvtoTable.hpp>
#include <opm/input/eclipse/EclipseState/Tables/Regdims.hpp>
#include <opm/input/eclipse/EclipseState/Tables/Rock2dTable.hpp>
#include <opm/input/eclipse/EclipseState/Tables/Rock2dtrTable.hpp>
#include <opm/input/eclipse/EclipseState/Tables/RocktabTable.hpp>
#include <opm/input/eclipse/EclipseState/Tables/SimpleTable.hpp>
#include <opm/input/eclipse/EclipseState/Tables/SkprpolyTable.hpp>
#include <opm/input/eclipse/EclipseState/Tables/SkprwatTable.hpp>
#include <opm/input/eclipse/EclipseState/Tables/Tabdims.hpp>
#include <opm/input/eclipse/EclipseState/Tables/TableColumn.hpp>
#include <opm/input/eclipse/EclipseState/Tables/TableContainer.hpp>
#include <opm/input/eclipse/EclipseState/Tables/TableManager.hpp>
#include <opm/input/eclipse/EclipseState/Tables/TableSchema.hpp>
#include <opm/input/eclipse/EclipseState/TracerConfig.hpp>
#include <opm/input/eclipse/Schedule/Action/ASTNode.hpp>
#include <opm/input/eclipse/Schedule/Action/ActionAST.hpp>
#include <opm/input/eclipse/Schedule/Action/ActionResult.hpp>
#include <opm/input/eclipse/Schedule/Action/ActionX.hpp>
#include <opm/input/eclipse/Schedule/Action/Actions.hpp>
#include <opm/input/eclipse/Schedule/Action/Condition.hpp>
#include <opm/input/eclipse/Schedule/Action/PyAction.hpp>
#include <opm/input/eclipse/Schedule/Action/State.hpp>
#include <opm/input/eclipse/Schedule/Events.hpp>
#include <opm/input/eclipse/Schedule/GasLiftOpt.hpp>
#include <opm/input/eclipse/Schedule/Group/GConSale.hpp>
#include <opm/input/eclipse/Schedule/Group/GConSump.hpp>
#include <opm/input/eclipse/Schedule/Group/Group.hpp>
#include <opm/input/eclipse/Schedule/Group/GroupEconProductionLimits.hpp>
#include <opm/input/eclipse/Schedule/Group/GuideRateConfig.hpp>
#include <opm/input/eclipse/Schedule/Group/GuideRateModel.hpp>
#include <opm/input/eclipse/Schedule/MSW/AICD.hpp>
#include <opm/input/eclipse/Schedule/MSW/SICD.hpp>
#include <opm/input/eclipse/Schedule/MSW/Valve.hpp>
#include <opm/input/eclipse/Schedule/MSW/WellSegments.hpp>
#include <opm/input/eclipse/Schedule/MSW/icd.hpp>
#include <opm/input/eclipse/Schedule/MessageLimits.hpp>
#include <opm/input/eclipse/Schedule/Network/Balance.hpp>
#include <opm/input/eclipse/Schedule/Network/ExtNetwork.hpp>
#include <opm/input/eclipse/Schedule/Network/Node.hpp>
#include <opm/input/eclipse/Schedule/OilVaporizationProperties.hpp>
#include <opm/input/eclipse/Schedule/ResCoup/ReservoirCouplingInfo.hpp>
#include <opm/input/eclipse/Schedule/RFTConfig.hpp>
#include <opm/input/eclipse/Schedule/RPTConfig.hpp>
#include <opm/input/eclipse/Schedule/RSTConfig.hpp>
#include <opm/input/eclipse/Schedule/Schedule.hpp>
#include <opm/input/eclipse/Schedule/ScheduleTypes.hpp>
#include <opm/input/eclipse/Schedule/SummaryState.hpp>
#include <opm/input/eclipse/Schedule/Tuning.hpp>
#include <opm/input/eclipse/Schedule/UDQ/UDQASTNode.hpp>
#include <opm/input/eclipse/Schedule/UDQ/UDQActive.hpp>
#include <opm/input/eclipse/Schedule/UDQ/UDQAssign.hpp>
#include <opm/input/eclipse/Schedule/UDQ/UDQConfig.hpp>
#include <opm/input/eclipse/Schedule/UDQ/UDQDefine.hpp>
#include <opm/input/eclipse/Schedule/UDQ/UDQFunction.hpp>
#include <opm/input/eclipse/Schedule/UDQ/UDQFunctionTable.hpp>
#include <opm/input/eclipse/Schedule/UDQ/UDQInput.hpp>
#include <opm/input/eclipse/Schedule/UDQ/UDQState.hpp>
#include <opm/input/eclipse/Schedule/VFPInjTable.hpp>
#include <opm/input/eclipse/Schedule/VFPProdTable.hpp>
#include <opm/input/eclipse/Schedule/Well/Connection.hpp>
#include <opm/input/eclipse/Schedule/Well/FilterCake.hpp>
#include <opm/input/eclipse/Schedule/Well/NameOrder.hpp>
#include <opm/input/eclipse/Schedule/Well/PAvg.hpp>
#include <opm/input/eclipse/Schedule/Well/WDFAC.hpp>
#include <opm/input/eclipse/Schedule/Well/WList.hpp>
#include <opm/input/eclipse/Schedule/Well/WListManager.hpp>
#include <opm/input/eclipse/Schedule/Well/WVFPDP.hpp>
#include <opm/input/eclipse/Schedule/Well/WVFPEXP.hpp>
#include <opm/input/eclipse/Schedule/Well/Well.hpp>
#include <opm/input/eclipse/Schedule/Well/WellBrineProperties.hpp>
#include <opm/input/eclipse/Schedule/Well/WellConnections.hpp>
#include <opm/input/eclipse/Schedule/Well/WellEconProductionLimits.hpp>
#include <opm/input/eclipse/Schedule/Well/WellFoamProperties.hpp>
#include <opm/input/eclipse/Schedule/Well/WellMICPProperties.hpp>
#include <opm/input/eclipse/Schedule/Well/WellPolymerProperties.hpp>
#include <opm/input/eclipse/Schedule/Well/WellTestConfig.hpp>
#include <opm/input/eclipse/Schedule/Well/WellTestState.hpp>
#include <opm/input/eclipse/Schedule/Well/WellTracerProperties.hpp>
#include <opm/input/eclipse/Schedule/WriteRestartFileEvents.hpp>
#include <opm/common/utility/Serializer.hpp>
#include <opm/common/utility/MemPacker.hpp>
#include <opm/common/utility/Serializer.hpp>
#include <opm/common/utility/MemPacker.hpp>
#include <opm/input/eclipse/Parser/Parser.hpp>
#include <opm/input/eclipse/Python/Python.hpp>
#include "replay.hpp"
template <class T> static T roundtrip(const T& in) {
    Opm::Serialization::MemPacker packer;
    Opm::Serializer ser(packer);
    ser.pack(in);
    T out;
    ser.unpack(out);
    return out;
}
int main(int argc, char** argv)
{
    Replay r(argc, argv);
    if (r.is("SummaryConfig::serializeOp/visits runSummaryConfig")) {
        Opm::SummaryConfig a; a.runSummaryConfig.create = true;           // what the RUNSUM keyword sets
        const auto b = roundtrip(a);
        return r.verdict(b.createRunSummary() == a.createRunSummary(), "createRunSummary() before = 1, after pack/unpack = " + std::to_string(b.createRunSummary()));
    }
    if (r.is("Schedule::serializeOp/visits possibleFutureConnections")) {
        Opm::Schedule a; a.possibleFutureConnections["P1"] = {11, 12};     // what COMPDAT inside an ACTIONX records
        const auto b = roundtrip(a);
        return r.verdict(b.getPossibleFutureConnections() == a.getPossibleFutureConnections(),
                         "getPossibleFutureConnections(): 1 well before, " + std::to_string(b.getPossibleFutureConnections().size()) + " after pack/unpack");
    }
    if (r.is("EclipseState::serializeOp/visits m_restart_network_pressures")) {
        Opm::EclipseState a; a.m_restart_network_pressures = std::map<std::string, double>{{"NODE", 123.0}};   // loadRestartNetworkPressures()
        const auto b = roundtrip(a);
        return r.verdict(b.getRestartNetworkPressures() == a.getRestartNetworkPressures(),
                         std::string("getRestartNetworkPressures(): has value before, ") + (b.getRestartNetworkPressures().has_value() ? "has value" : "empty") + " after pack/unpack");
    }
    if (r.is("Schedule::serializeOp/re-attaches by updateUnitSystem")) {
        // a Schedule in which wells are modified after the step that introduces them (each modification creates a new
        // Well object of the same name): after pack / unpack the whole Schedule and every Well of every step must compare
        // equal to the original (Well::operator== includes the re-attached unit system)
        const std::string deck_text =
            "RUNSPEC\nDIMENS\n 5 5 3 /\nOIL\nWATER\nGAS\nMETRIC\nSTART\n 1 'JAN' 2020 /\nWELLDIMS\n 3 10 2 3 /\nGRID\nDXV\n 5*100 /\nDYV\n 5*100 /\nDZV\n 3*10 /\nTOPS\n 25*2000 /\n"
            "PERMX\n 75*100 /\nPERMY\n 75*100 /\nPERMZ\n 75*10 /\nPORO\n 75*0.3 /\nSCHEDULE\n"
            "WELSPECS\n 'PROD' 'G' 1 1 1* 'OIL' /\n 'INJ' 'G' 5 5 1* 'WATER' /\n/\nCOMPDAT\n 'PROD' 1 1 1 3 'OPEN' 1* 1* 0.2 /\n 'INJ' 5 5 1 3 'OPEN' 1* 1* 0.2 /\n/\n"
            "WCONPROD\n 'PROD' 'OPEN' 'ORAT' 1000 4* 100 /\n/\nWCONINJE\n 'INJ' 'WATER' 'OPEN' 'RATE' 800 1* 400 /\n/\nTSTEP\n 10 /\n"
            "WCONPROD\n 'PROD' 'OPEN' 'ORAT' 1500 4* 90 /\n/\nTSTEP\n 10 /\nWCONINJE\n 'INJ' 'WATER' 'OPEN' 'RATE' 900 1* 420 /\n/\nTSTEP\n 10 /\n";
        try {
            const auto deck = Opm::Parser{}.parseString(deck_text);
            const Opm::EclipseState es(deck);
            const Opm::Schedule a(deck, es, std::make_shared<Opm::Python>());
            const auto b = roundtrip(a);
            for (std::size_t step = 0; step < a.size(); ++step)
                for (const auto& wn : a.wellNames(step))
                    if (!(a.getWell(wn, step) == b.getWell(wn, step)))
                        return r.verdict(false, "well " + wn + " at report step " + std::to_string(step) + " differs after pack / unpack (its unit system pointer was not re-attached)");
            return r.verdict(a == b, "Schedule with wells modified at later report steps: equal after pack / unpack = " + std::to_string(a == b));
        } catch (const std::exception& e) { return r.verdict(false, std::string("the test schedule does not load: ") + std::string(e.what()).substr(0, 160)); }
    }
    std::cerr << "no native replay for this obligation\n";
    return 3;
}
