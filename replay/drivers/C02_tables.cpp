// REPLAY_SOURCES: opm/input/eclipse/Units/UnitSystem.cpp
// Replays a refuted to_si / from_si obligation: the measure comes from the verifier's counterexample; the table
// pointers of the counterexample are symbolic table ids, so all four deck unit systems are tried, with the
// counterexample's value (when the trace carries it) and a few fixed probe values.
#include "replay.hpp"
#include <opm/input/eclipse/Units/UnitSystem.hpp>
#include <sstream>
#include <vector>
using Opm::UnitSystem;
int main(int argc, char** argv)
{
    Replay r(argc, argv);
    const int m = (int)r.integer("m");
    std::vector<double> probes = {0.0, 1.0, 100.5, -40.0, 373.15};
    if (r.has("val")) probes.insert(probes.begin(), r.num("val"));
    const bool vec = r.is("_vec/");
    const bool from = r.is("us_from_si");
    std::ostringstream w; w.precision(17);
    for (auto ut : {UnitSystem::UnitType::UNIT_TYPE_METRIC, UnitSystem::UnitType::UNIT_TYPE_FIELD, UnitSystem::UnitType::UNIT_TYPE_LAB, UnitSystem::UnitType::UNIT_TYPE_PVT_M}) {
        const UnitSystem us(ut);
        const auto meas = static_cast<UnitSystem::measure>(m);
        for (double v : probes) {
            // reference: the scalar affine maps through the public Dimension of the measure (factor, offset)
            const auto dim = us.getDimension(meas);
            const double want = from ? dim.convertSiToRaw(v) : dim.convertRawToSi(v);
            double got;
            if (vec) { std::vector<double> d{7.0, v, 9.0}; if (from) us.from_si(meas, d); else us.to_si(meas, d); got = d[1]; }
            else got = from ? us.from_si(meas, v) : us.to_si(meas, v);
            if (!Replay::close(got, want)) {
                w << us.getName() << " measure " << m << (vec ? " (vector overload)" : "") << (from ? " from_si(" : " to_si(") << v << ") = " << got
                  << ", the unit's factor/offset give " << want;
                return r.verdict(false, w.str());
            }
        }
    }
    return r.verdict(true, "all four unit systems agree with factor/offset of the measure for the probe values");
}
