// REPLAY_SOURCES: opm/input/eclipse/Units/UnitSystem.cpp
// REPLAY_SEARCH (the init<System> obligations carry no input: the driver compares string dimensions with the measure tables)
// Replays a refuted to_si / from_si obligation: the measure comes from the verifier's counterexample; the table
// pointers of the counterexample are symbolic table ids, so all four deck unit systems are tried, with the
// counterexample's value (when the trace carries it) and a few fixed probe values.
#include "replay.hpp"
#include <opm/input/eclipse/Units/UnitSystem.hpp>
#include <map>
#include <sstream>
#include <vector>
using Opm::UnitSystem;
int main(int argc, char** argv)
{
    Replay r(argc, argv);
    // obligations of the init<System> string tables ("us_initPVT_M/ensures dim_Transmissibility"): the string dimension
    // must agree with the measure table of the same unit system (for the dimensions that have a measure counterpart)
    {
        const std::string& ob = r.obligation;
        const auto p0 = ob.find("us_init"), p1 = ob.find("ensures dim");
        if (ob.find("bounded_native_search") != std::string::npos) {
            const std::pair<const char*, UnitSystem::measure> pairs[] = { {"Length", UnitSystem::measure::length}, {"Time", UnitSystem::measure::time}, {"Density", UnitSystem::measure::density},
                {"Pressure", UnitSystem::measure::pressure}, {"Viscosity", UnitSystem::measure::viscosity}, {"Permeability", UnitSystem::measure::permeability},
                {"Transmissibility", UnitSystem::measure::transmissibility}, {"LiquidSurfaceVolume", UnitSystem::measure::liquid_surface_volume},
                {"GasSurfaceVolume", UnitSystem::measure::gas_surface_volume}, {"ReservoirVolume", UnitSystem::measure::volume}, {"Mass", UnitSystem::measure::mass}, {"Energy", UnitSystem::measure::energy} };
            for (auto ut : {UnitSystem::UnitType::UNIT_TYPE_METRIC, UnitSystem::UnitType::UNIT_TYPE_FIELD, UnitSystem::UnitType::UNIT_TYPE_LAB, UnitSystem::UnitType::UNIT_TYPE_PVT_M}) {
                const UnitSystem us(ut);
                for (const auto& [nm, ms] : pairs) {
                    const double a = us.getDimension(nm).getSIScaling(), b = us.getDimension(ms).getSIScaling();
                    if (std::fabs(a - b) > 1e-9 * std::max(std::fabs(a), std::fabs(b))) { std::ostringstream w; w.precision(12); w << us.getName() << ": the string dimension \"" << nm << "\" has the SI factor " << a << ", the measure table gives " << b; return r.verdict(false, w.str()); }
                    for (double v : {0.0, 1.0, 100.5, -40.0}) if (!Replay::close(us.from_si(ms, us.to_si(ms, v)), v, 1.0)) return r.verdict(false, us.getName() + std::string(": from_si(to_si(v)) != v for measure of ") + nm);
                }
            }
            return r.verdict(true, "string dimensions agree with the measure tables and from_si / to_si are inverse in all four unit systems (bounded native search)");
        }
        if (p0 != std::string::npos && p1 != std::string::npos) {
            const std::string sys = ob.substr(p0 + 7, ob.find('/', p0) - p0 - 7);
            std::string name = ob.substr(ob.find('_', p1) + 1);
            const std::map<std::string, UnitSystem::UnitType> types = { {"METRIC", UnitSystem::UnitType::UNIT_TYPE_METRIC}, {"FIELD", UnitSystem::UnitType::UNIT_TYPE_FIELD},
                {"LAB", UnitSystem::UnitType::UNIT_TYPE_LAB}, {"PVT_M", UnitSystem::UnitType::UNIT_TYPE_PVT_M} };
            const std::map<std::string, UnitSystem::measure> meas = { {"Length", UnitSystem::measure::length}, {"Time", UnitSystem::measure::time}, {"Density", UnitSystem::measure::density},
                {"Pressure", UnitSystem::measure::pressure}, {"Viscosity", UnitSystem::measure::viscosity}, {"Permeability", UnitSystem::measure::permeability},
                {"Transmissibility", UnitSystem::measure::transmissibility}, {"LiquidSurfaceVolume", UnitSystem::measure::liquid_surface_volume},
                {"GasSurfaceVolume", UnitSystem::measure::gas_surface_volume}, {"ReservoirVolume", UnitSystem::measure::volume}, {"Mass", UnitSystem::measure::mass}, {"Energy", UnitSystem::measure::energy} };
            if (!types.count(sys) || !meas.count(name)) return r.verdict(true, "no native case for the string dimension " + name + " of " + sys);
            const UnitSystem us(types.at(sys));
            const double a = us.getDimension(name).getSIScaling(), b = us.getDimension(meas.at(name)).getSIScaling();
            std::ostringstream w; w.precision(12);
            w << sys << ": the string dimension \"" << name << "\" has the SI factor " << a << ", the measure table of the same system gives " << b;
            return r.verdict(std::fabs(a - b) <= 1e-9 * std::max(std::fabs(a), std::fabs(b)), w.str());
        }
    }
    const int m = (int)r.integer("m");
    std::vector<double> probes = {0.0, 1.0, 100.5, -40.0, 373.15};
    if (r.has("val")) probes.insert(probes.begin(), r.num("val"));
    const bool vec = r.is("_vec/");
    const bool from = r.is("us_from_si");
    std::ostringstream w; w.precision(17);
    for (auto ut : {UnitSystem::UnitType::UNIT_TYPE_METRIC, UnitSystem::UnitType::UNIT_TYPE_FIELD, UnitSystem::UnitType::UNIT_TYPE_LAB, UnitSystem::UnitType::UNIT_TYPE_PVT_M}) {
        const UnitSystem us(ut);
        const auto meas = static_cast<UnitSystem::measure>(m);
        for (double v : probes) {
            // reference: the scalar affine maps through the public Dimension of the measure (factor, offset)
            const auto dim = us.getDimension(meas);
            const double want = from ? dim.convertSiToRaw(v) : dim.convertRawToSi(v);
            double got;
            if (vec) { std::vector<double> d{7.0, v, 9.0}; if (from) us.from_si(meas, d); else us.to_si(meas, d); got = d[1]; }
            else got = from ? us.from_si(meas, v) : us.to_si(meas, v);
            if (!Replay::close(got, want)) {
                w << us.getName() << " measure " << m << (vec ? " (vector overload)" : "") << (from ? " from_si(" : " to_si(") << v << ") = " << got
                  << ", the unit's factor/offset give " << want;
                return r.verdict(false, w.str());
            }
        }
    }
    return r.verdict(true, "all four unit systems agree with factor/offset of the measure for the probe values");
}
