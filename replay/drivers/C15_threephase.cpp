// REPLAY_SOURCES: opm/material/fluidmatrixinteractions/EclMaterialLawManagerInitParams.cpp
// REPLAY_SEARCH
// Native replay for C15/threephase: a three-phase ENDSCALE model with one saturation region and four cells whose
// connate water saturation SWL is 0.12 (the table's), 0.16, 0.22 and 0.30 (SGU = 1 - SWL) goes through the real parser,
// EclipseState and EclMaterialLawManager; with water at SWL, the gas relative permeability and the gas-oil capillary
// pressure of every cell must reach the table maxima exactly at the cell's SGU and krg must vanish at SGCR -- which
// holds only if the three-phase law evaluates the gas-oil functions with the cell's OWN scaled SWL.
#include <config.h>
#include "replay.hpp"
#include <opm/material/fluidmatrixinteractions/EclMaterialLawManager.hpp>
#include <opm/material/fluidstates/SimpleModularFluidState.hpp>
#include <opm/input/eclipse/Deck/Deck.hpp>
#include <opm/input/eclipse/EclipseState/EclipseState.hpp>
#include <opm/input/eclipse/EclipseState/Grid/FieldPropsManager.hpp>
#include <opm/input/eclipse/Parser/Parser.hpp>
#include <array>
#include <functional>
#include <sstream>
int main(int argc, char** argv)
{
    Replay r(argc, argv);
    const std::string deck_text =
        "RUNSPEC\nDIMENS\n 4 1 1 /\nTABDIMS\n/\nOIL\nGAS\nWATER\nMETRIC\nENDSCALE\n/\nGRID\nDX\n 4*100 /\nDY\n 4*100 /\nDZ\n 4*10 /\nTOPS\n 4*2000 /\nPORO\n 4*0.25 /\nPERMX\n 4*100 /\nPERMY\n 4*100 /\nPERMZ\n 4*10 /\n"
        "PROPS\nSWOF\n 0.12 0.0 1.0 2.5\n 0.25 0.02 0.7 1.5\n 0.50 0.2 0.3 0.8\n 0.75 0.5 0.0 0.2\n 1.00 1.0 0.0 0.0 /\n"
        "SGOF\n 0.00 0.0 1.0 0.0\n 0.04 0.0 0.85 0.2\n 0.35 0.25 0.3 0.6\n 0.70 0.7 0.0 1.2\n 0.88 0.95 0.0 1.8 /\n"
        "SWL\n 0.12 0.16 0.22 0.30 /\nSGU\n 0.88 0.84 0.78 0.70 /\n";
    enum { W = 0, O = 1, G = 2 };
    using Traits = Opm::ThreePhaseMaterialTraits<double, W, O, G>;
    using Manager = Opm::EclMaterialLawManager<Traits>;
    using FluidState = Opm::SimpleModularFluidState<double, 3, 3, void, false, false, false, false, true, false, false, false>;
    std::ostringstream w; w.precision(10);
    try {
        const auto deck = Opm::Parser{}.parseString(deck_text);
        const Opm::EclipseState es(deck);
        std::function<std::vector<int>(const Opm::FieldPropsManager&, const std::string&, bool)> lookup =
            [](const Opm::FieldPropsManager& fp, const std::string& kw, bool tr) { auto v = fp.get_int(kw); for (auto& x : v) x -= tr; return v; };
        std::function<unsigned(unsigned)> ident = [](unsigned i) { return i; };
        Manager mgr; mgr.initFromState(es); mgr.initParamsForElements(es, 4, lookup, ident);
        const double swl[4] = {0.12, 0.16, 0.22, 0.30}, krgmax = 0.95, pcmax = 1.8e5, sgcr = 0.04;
        for (unsigned c = 0; c < 4; ++c) {
            auto eval = [&](double sg, double& krg, double& pcgo) {
                FluidState fs; fs.setSaturation(W, swl[c]); fs.setSaturation(G, sg); fs.setSaturation(O, 1.0 - swl[c] - sg);
                std::array<double, 3> kr{}, pc{};
                Manager::MaterialLaw::relativePermeabilities(kr, mgr.materialLawParams(c), fs);
                Manager::MaterialLaw::capillaryPressures(pc, mgr.materialLawParams(c), fs);
                krg = kr[G]; pcgo = pc[G] - pc[O];
            };
            double krg, pcgo; const double sgu = 1.0 - swl[c];
            eval(sgu, krg, pcgo);
            if (std::fabs(krg - krgmax) > 1e-9 || std::fabs(pcgo - pcmax) > 1e-3) {
                w << "cell " << c + 1 << " (SWL " << swl[c] << ", SGU " << sgu << "): krg(SGU) = " << krg << " (table maximum " << krgmax << "), pcgo(SGU) = " << pcgo << " (table maximum " << pcmax << ")";
                return r.verdict(false, w.str());
            }
            eval(sgcr, krg, pcgo);
            if (std::fabs(krg) > 1e-12) { w << "cell " << c + 1 << ": krg(SGCR) = " << krg << ", must be 0"; return r.verdict(false, w.str()); }
        }
    } catch (const std::exception& e) { return r.verdict(false, std::string("the test model does not load: ") + std::string(e.what()).substr(0, 160)); }
    return r.verdict(true, "the scaled gas end-points of every cell map onto the table end-points (bounded native search)");
}
