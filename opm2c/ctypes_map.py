"""C++ type spelling -> C type used in the extracted text.

Integer and floating types are emitted through typedef names (c_int, c_long, real_t ...) so
that the *same extracted text* can be compiled in the different proof modes (bit-vector ints,
mathematical ints, reals, native doubles) by switching the prelude."""
import re
from .astdb import ExtractError

BUILTIN = {
    'void': 'void', 'bool': '_Bool', 'char': 'char', 'signed char': 'signed char',
    'unsigned char': 'unsigned char', 'short': 'short', 'unsigned short': 'unsigned short',
    'int': 'c_int', 'unsigned int': 'c_uint', 'unsigned': 'c_uint',
    'long': 'c_long', 'unsigned long': 'c_ulong',
    'long long': 'c_long', 'unsigned long long': 'c_ulong',
    'double': 'real_t', 'float': 'realf_t', 'long double': 'real_t',
    'std::size_t': 'c_ulong', 'size_t': 'c_ulong', 'std::int64_t': 'c_long', 'int64_t': 'c_long',
    'std::uint64_t': 'c_ulong', 'uint64_t': 'c_ulong', 'std::int32_t': 'c_int', 'int32_t': 'c_int',
    'std::uint32_t': 'c_uint', 'uint32_t': 'c_uint', 'std::ptrdiff_t': 'c_long', 'ptrdiff_t': 'c_long',
    'std::streamoff': 'c_long', 'std::streamsize': 'c_long', 'std::time_t': 'c_long', 'time_t': 'c_long',
    'std::uint8_t': 'unsigned char', 'uint8_t': 'unsigned char',
}

SCALAR_C = set(BUILTIN.values()) | {'c_enum', 'c_tabid', 'c_opaque', 'c_strid', 'c_textptr', 'c_vecit'}


def strip_cv(s):
    s = s.strip()
    changed = True
    while changed:
        changed = False
        for q in ('const ', 'volatile ', 'struct ', 'class ', 'typename ', 'enum '):
            if s.startswith(q):
                s = s[len(q):].strip()
                changed = True
        for q in (' const', ' volatile'):
            if s.endswith(q):
                s = s[:-len(q)].strip()
                changed = True
    return s


def split_top(s, sep=','):
    """split at top-level separators (outside <>, ())"""
    out, depth, cur = [], 0, ''
    for ch in s:
        if ch in '<(':
            depth += 1
        elif ch in '>)':
            depth -= 1
        if ch == sep and depth == 0:
            out.append(cur.strip())
            cur = ''
        else:
            cur += ch
    if cur.strip():
        out.append(cur.strip())
    return out


def template_parts(s):
    """'std::vector<double, std::allocator<double>>' -> ('std::vector', ['double', 'std::allocator<double>'])"""
    s = s.strip()
    i = s.find('<')
    if i < 0 or not s.endswith('>'):
        return s, None
    # make sure the '<' at i matches the final '>'
    depth = 0
    for j in range(i, len(s)):
        if s[j] == '<':
            depth += 1
        elif s[j] == '>':
            depth -= 1
            if depth == 0:
                if j != len(s) - 1:
                    return s, None      # e.g. A<x>::type
                break
    return s[:i].strip(), split_top(s[i + 1:-1])


def ident(s):
    s = re.sub(r'[^A-Za-z0-9_]+', '_', s).strip('_')
    return s


class TypeMap:
    def __init__(self, overrides=()):
        # overrides: list of (compiled regex on the cv-stripped C++ spelling, C type)
        self.overrides = [(re.compile(p), c) for p, c in overrides]
        self.decls = {}          # C type name -> definition text (emitted in insertion order)
        self.kinds = {}          # C type name -> ('vec', elem) | ('arr', elem, n) | ('tup', [..]) | ('opt', elem) | ('rec', fields)
        self.record_resolver = None   # callback(spelling) -> C struct name or None

    def tname(self, t):
        """t: clang JSON type object or spelling"""
        if isinstance(t, dict):
            s = t.get('desugaredQualType') or t.get('qualType')
            alt = t.get('qualType')
        else:
            s, alt = t, None
        try:
            return self.c(s)
        except ExtractError:
            if alt and alt != s:
                return self.c(alt)
            raise

    def is_ref(self, t):
        s = t.get('qualType', '') if isinstance(t, dict) else t
        return s.rstrip().endswith('&')

    def c(self, s):
        s = s.strip()
        for rx, ct in self.overrides:
            if rx.fullmatch(s) or rx.fullmatch(strip_cv(s)):
                return self.vec(ct[4:]) if ct.startswith('vec:') else ct
        # pointer / reference suffix
        if s.endswith('&&'):
            return self.c(s[:-2]) + ' *'
        if s.endswith('&') or s.endswith('*'):
            return self.c(s[:-1]) + ' *'
        s = strip_cv(s)
        if s.endswith('&') or s.endswith('*'):
            return self.c(s)
        for rx, ct in self.overrides:
            if rx.fullmatch(s):
                return self.vec(ct[4:]) if ct.startswith('vec:') else ct
        if s in BUILTIN:
            return BUILTIN[s]
        if re.match(r'(__gnu_cxx::)?__normal_iterator<', s) or re.fullmatch(r'std::vector<.*>::(const_)?iterator', s):
            return 'c_vecit'
        m = re.fullmatch(r'(.*)\[(\d+)\]', s)
        if m:
            raise ExtractError('C array type in expression position: ' + s)
        base, args = template_parts(s)
        b = base.replace('std::__cxx11::', 'std::').replace('std::__1::', 'std::')
        if b.startswith('__tuple_element_t') or b.startswith('std::__tuple_element_t'):
            idx = int(re.match(r'(\d+)', args[0]).group(1))
            _, targs = template_parts(strip_cv(args[1]))
            return self.c(targs[idx])
        if args is not None:
            if b in ('std::vector', 'vector'):
                et = self.c(args[0])
                if self.kinds.get(et, ('',))[0] == 'vec':
                    return 'c_opaque'      # nested unbounded arrays are not supported by CBMC: unmodelled object
                return self.vec(et)
            if b in ('std::basic_string', 'basic_string', 'std::basic_string_view', 'basic_string_view'):
                return self.vec('char')
            if b in ('std::array', 'array'):
                return self.arr(self.c(args[0]), args[1])
            if b in ('std::tuple', 'tuple', 'std::pair', 'pair'):
                return self.tup([self.c(a) for a in args])
            if b in ('std::optional', 'optional'):
                return self.opt(self.c(args[0]))
            if b in ('std::unique_ptr', 'unique_ptr', 'std::shared_ptr', 'shared_ptr'):
                # an owning, never-null pointer is modelled as the owned object itself (assumption: not null)
                return self.c(args[0])
        if s in ('std::string', 'std::string_view', 'string', 'string_view'):
            return self.vec('char')
        if self.record_resolver:
            r = self.record_resolver(s)
            if r:
                return r
        raise ExtractError('unsupported type: ' + s)

    # ---- aggregate constructors ------------------------------------------------------
    def vec(self, elem):
        n = 'vec_' + ident(elem)
        if n not in self.decls:
            self.decls[n] = 'DECL_VEC(%s, %s);' % (elem, n)
            self.kinds['struct ' + n] = ('vec', elem)
        return 'struct ' + n

    def arr(self, elem, n):
        n = re.sub(r'[uUlL]+$', '', n.strip())
        if not re.fullmatch(r'\d+', n):
            raise ExtractError('std::array with a size that is not a literal in this context: ' + n)
        name = 'arr_%s_%s' % (ident(elem), n)
        if name not in self.decls:
            self.decls[name] = 'struct %s { %s a[%s]; };' % (name, elem, n)
            self.kinds['struct ' + name] = ('arr', elem, int(n))
        return 'struct ' + name

    def tup(self, elems):
        name = 'tup_' + '_'.join(ident(e) for e in elems)
        if name not in self.decls:
            self.decls[name] = 'struct %s { %s };' % (
                name, ' '.join('%s _%d;' % (e, i) for i, e in enumerate(elems)))
            self.kinds['struct ' + name] = ('tup', list(elems))
        return 'struct ' + name

    def opt(self, elem):
        name = 'opt_' + ident(elem)
        if name not in self.decls:
            self.decls[name] = 'struct %s { _Bool has; %s val; };' % (name, elem)
            self.kinds['struct ' + name] = ('opt', elem)
        return 'struct ' + name

    def add_record(self, cname, fields):
        """fields: list of (ctype, name)"""
        if cname not in self.decls:
            self.decls[cname] = 'struct %s { %s };' % (
                cname, ' '.join('%s %s;' % f for f in fields) or 'char verif_empty;')
            self.kinds['struct ' + cname] = ('rec', list(fields))
        return 'struct ' + cname

    def valid(self, ct, x, depth=0):
        """C expression stating the C++ type invariant of object x of C type ct that a bit-level nondeterministic
        value may violate (bool is 0 or 1), or None when there is nothing to state"""
        ct = ct.strip()
        if ct == '_Bool':
            return '(%s == 0 || %s == 1)' % (x, x)
        k = self.kinds.get(ct)
        if not k:
            return None
        parts = []
        if k[0] == 'rec':
            for t, n in k[1]:
                v = self.valid(t, '%s.%s' % (x, n), depth)
                if v:
                    parts.append(v)
        elif k[0] == 'tup':
            for i, t in enumerate(k[1]):
                v = self.valid(t, '%s._%d' % (x, i), depth)
                if v:
                    parts.append(v)
        elif k[0] == 'opt':
            parts.append('(%s.has == 0 || %s.has == 1)' % (x, x))
            v = self.valid(k[1], x + '.val', depth)
            if v:
                parts.append(v)
        elif k[0] == 'arr':
            for i in range(k[2]):
                v = self.valid(k[1], '%s.a[%d]' % (x, i), depth)
                if v:
                    parts.append(v)
        elif k[0] == 'vec':
            q = 'verif_q%d' % depth
            v = self.valid(k[1], '%s.data[%s]' % (x, q), depth + 1)
            if v:
                parts.append('__CPROVER_forall { c_ulong %s; %s }' % (q, v))
        return ' && '.join(parts) if parts else None

    def emit(self):
        return '\n'.join(self.decls.values()) + '\n'

    def lvalue_type(self, text, env):
        """C type of a simple access path over the variables in env (name -> C type), or None"""
        t = text.replace(' ', '')
        deref = 0
        while t.startswith('(') and t.endswith(')'):
            t = t[1:-1]
        while t.startswith('*'):
            deref += 1
            t = t[1:]
            while t.startswith('(') and t.endswith(')'):
                t = t[1:-1]
        m = re.match(r'[A-Za-z_]\w*', t)
        if not m or m.group(0) not in env:
            return None
        ct = env[m.group(0)]
        rest = t[m.end():]
        for _ in range(deref):
            if not ct.rstrip().endswith('*'):
                return None
            ct = ct.rstrip()[:-1].rstrip()
        while rest:
            m = re.match(r'(->|\.)([A-Za-z_]\w*)', rest)
            if m:
                if m.group(1) == '->':
                    if not ct.rstrip().endswith('*'):
                        return None
                    ct = ct.rstrip()[:-1].rstrip()
                k = self.kinds.get(ct)
                f = m.group(2)
                if not k:
                    return None
                if k[0] == 'rec':
                    d = dict((n, t2) for t2, n in k[1])
                    if f not in d:
                        return None
                    ct = d[f]
                elif k[0] == 'opt' and f in ('val', 'has'):
                    ct = k[1] if f == 'val' else '_Bool'
                elif k[0] == 'tup' and re.fullmatch(r'_\d+', f):
                    ct = k[1][int(f[1:])]
                elif k[0] == 'vec' and f in ('size',):
                    ct = 'unsigned long'
                elif k[0] == 'vec' and f == 'data':
                    mm = re.match(r'(->|\.)data\[', rest)
                    ct = 'ARRAY:' + k[1]
                elif k[0] == 'arr' and f == 'a':
                    ct = 'ARRAY:' + k[1]
                else:
                    return None
                rest = rest[m.end():]
                continue
            if rest.startswith('['):
                d, j = 0, 0
                for j, ch in enumerate(rest):
                    if ch == '[':
                        d += 1
                    elif ch == ']':
                        d -= 1
                        if d == 0:
                            break
                if not ct.startswith('ARRAY:'):
                    return None
                ct = ct[6:]
                rest = rest[j + 1:]
                continue
            return None
        return None if ct.startswith('ARRAY:') else ct

    def valid_for(self, text, env):
        ct = self.lvalue_type(text, env)
        if ct is None:
            return None
        return self.valid(ct, '(%s)' % text if not re.fullmatch(r'[\w.>-]+', text) else text)
