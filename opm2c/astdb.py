"""AST database: runs clang on a /repo translation unit (current working tree) with an
-ast-dump-filter, parses the JSON stream, resolves elided file/line information and indexes
declarations by id / mangled name.

Nothing in here looks at program text by pattern; the only text read from the sources is the
byte range of a node (for hashing in the evidence and for floating literal spellings)."""
import hashlib
import json
import re
import os
import subprocess
import sys

REPO = os.environ.get('VERIF_REPO', '/repo')
VERIF = os.path.dirname(os.path.dirname(os.path.abspath(__file__)))
WORK = os.path.join(VERIF, '.work')

BASE_FLAGS = ('-std=c++17 -DHAVE_CONFIG_H=1 -DBOOST_SYSTEM_DYN_LINK -DBOOST_SYSTEM_NO_LIB '
              '-DFMT_SHARED -UNDEBUG -I{repo}/_build -I{repo}/_build/include -I{repo} '
              '-I/usr/include/cjson -isystem /root/miniconda/include -fopenmp -Wno-everything')


class ExtractError(Exception):
    """extraction cannot proceed -> the check is undecided (exit 2), never a violation"""


def flags(extra_inc=()):
    fl = []
    for d in extra_inc:
        fl += ['-I', d]
    return fl + BASE_FLAGS.format(repo=REPO).split()


def _run(cmd, **kw):
    return subprocess.run(cmd, stdout=subprocess.PIPE, stderr=subprocess.PIPE, **kw)


def preprocess_hash(src, extra_inc=()):
    r = _run(['clang++', '-E', '-P'] + flags(extra_inc) + [src])
    if r.returncode != 0:
        raise ExtractError('preprocess failed for %s: %s' % (src, r.stderr.decode()[-800:]))
    return hashlib.sha256(r.stdout).hexdigest()


def _parse_stream(s):
    dec = json.JSONDecoder()
    i = 0
    objs = []
    n = len(s)
    while i < n:
        while i < n and s[i] in ' \n\r\t':
            i += 1
        if i >= n:
            break
        if s.startswith('Dumping', i):
            i = s.index('\n', i)
            continue
        o, j = dec.raw_decode(s, i)
        objs.append(o)
        i = j
    return objs


class AstDB:
    """All declarations matching `filt` in translation unit `src` (absolute path)."""

    def __init__(self, src, filt, extra_inc=(), cache=True):
        """filt: one -ast-dump-filter string, or a list of several.  Node ids are only meaningful within one
        clang invocation, so several filters are served by ONE run with the catch-all filter '::' from which
        only declarations located in project files (/repo, /verif/.work drivers) are retained."""
        self.src = src
        filters = [filt] if isinstance(filt, str) else list(filt)
        self.filt = filters
        project_only = len(filters) > 1 or filters == ['::']
        fl = '::' if project_only else filters[0]
        os.makedirs(os.path.join(WORK, 'ast'), exist_ok=True)
        h = preprocess_hash(src, extra_inc)
        # the cache is keyed by the preprocessed text; file names inside it are stored relative to the repository root
        # ("@REPO@/...") so that a cached dump made from a scratch copy (self-test, seed sweep) that no longer exists is
        # still usable -- and never points into a deleted directory
        srckey = src.replace(REPO + '/', '@REPO@/')
        key = hashlib.sha1((srckey + '|' + fl + '|' + h + ('|proj3' if project_only else '|v3')).encode()).hexdigest()
        path = os.path.join(WORK, 'ast', key + '.json')
        self.byid = {}
        self._files = {}
        if not (cache and os.path.exists(path) and os.path.getsize(path) > 0):
            cmd = (['clang++', '-fsyntax-only'] + flags(extra_inc) +
                   ['-Xclang', '-ast-dump=json', '-Xclang', '-ast-dump-filter=' + fl, src])
            raw = path + '.raw%d' % os.getpid()
            with open(raw, 'w') as f:
                r = subprocess.run(cmd, stdout=f, stderr=subprocess.PIPE)
            if r.returncode != 0:
                os.unlink(raw)
                raise ExtractError('clang failed on %s: %s' % (src, r.stderr.decode()[-1500:]))
            with open(raw) as f:
                objs = _parse_stream(f.read())
            os.unlink(raw)
            st = [None, None]
            keep = []
            for o in objs:
                self._locfix(o, st)
                if project_only:
                    fn = (o.get('loc') or {}).get('_file') or ''
                    if not (fn.startswith(REPO + '/') or fn.startswith(WORK) or fn.startswith(VERIF)):
                        continue
                keep.append(o)
            del objs
            tmp = path + '.tmp%d' % os.getpid()
            with open(tmp, 'w') as f:
                f.write(json.dumps(keep).replace('"' + REPO + '/', '"@REPO@/'))
            os.rename(tmp, path)
            self.objs = keep
        else:
            with open(path) as f:
                self.objs = json.loads(f.read().replace('"@REPO@/', '"' + REPO + '/'))
        if not self.objs:
            raise ExtractError('no declaration matches filter %r in %s' % (filt, src))
        for o in self.objs:
            self._fix(o)
        self._demangle()

    def _locfix(self, n, st):
        """resolve elided file/line (stream order, state shared by the whole dump)"""
        def loc(l):
            if not isinstance(l, dict):
                return
            if 'spellingLoc' in l:
                loc(l['spellingLoc'])
                loc(l['expansionLoc'])
                l['_file'], l['_line'] = l['expansionLoc']['_file'], l['expansionLoc']['_line']
                return
            if 'file' in l:
                st[0] = l['file']
            if 'line' in l:
                st[1] = l['line']
            l['_file'], l['_line'] = st[0], st[1]
        stack = [n]
        # pre-order, children in order: identical to clang's print order
        def rec(x):
            if 'loc' in x:
                loc(x['loc'])
            if 'range' in x:
                loc(x['range'].get('begin'))
                loc(x['range'].get('end'))
            for k in x.get('inner', []):
                if isinstance(k, dict) and k:
                    rec(k)
        rec(n)

    def _fix(self, n, parent=None):
        if 'id' in n and n.get('kind', '').endswith('Decl'):
            old = self.byid.get(n['id'])
            # clang prints a declaration in full once and as a brief reference elsewhere: keep the full one
            if old is None or self._weight(old) < self._weight(n):
                self.byid[n['id']] = n
        n['_parent'] = parent
        for k in n.get('inner', []):
            if isinstance(k, dict) and k:
                self._fix(k, n)

    @staticmethod
    def _weight(n):
        return (1 if 'mangledName' in n else 0) + 2 * len(n.get('inner', [])) + \
            (100 if any(isinstance(k, dict) and k.get('kind') == 'CompoundStmt' for k in n.get('inner', [])) else 0)

    def _demangle(self):
        ms = sorted({n['mangledName'] for n in self.byid.values() if 'mangledName' in n})
        if not ms:
            self.demangled = {}
            return
        r = _run(['c++filt'], input='\n'.join(ms).encode())
        out = r.stdout.decode().split('\n')
        self.demangled = dict(zip(ms, out))
        for n in self.byid.values():
            if 'mangledName' in n:
                n['_qual'] = self.demangled.get(n['mangledName'], n['mangledName'])

    # ------------------------------------------------------------------ lookups
    def functions(self, qualname, sig=None, need_body=True):
        """definitions whose demangled name is `qualname(...)` (optionally containing `sig`)"""
        res = []
        for n in self.byid.values():
            if n['kind'] not in ('FunctionDecl', 'CXXMethodDecl', 'CXXConstructorDecl', 'CXXConversionDecl'):
                continue
            q = n.get('_qual')
            if not q:
                continue
            # strip return type of template instantiations: "void ns::f<int>(int)"
            base = q
            p = _top_level_paren(base)
            head = base[:p] if p >= 0 else base
            if qualname.startswith('~'):
                if not re.search(qualname[1:], head):
                    continue
            elif not (head == qualname or head.endswith(' ' + qualname)):
                continue
            if sig and sig not in q:
                continue
            if need_body and not any(k.get('kind') == 'CompoundStmt' for k in n.get('inner', [])):
                continue
            res.append(n)
        return res

    def source_bytes(self, node):
        r = node.get('range', {})
        b, e = r.get('begin', {}), r.get('end', {})
        b = b.get('expansionLoc', b)
        e = e.get('expansionLoc', e)
        f = b.get('_file')
        if not f or 'offset' not in b or 'offset' not in e:
            return None
        if f not in self._files:
            with open(f, 'rb') as fh:
                self._files[f] = fh.read()
        return self._files[f][b['offset']: e['offset'] + e.get('tokLen', 1)]


def _top_level_paren(s):
    """index of the '(' that opens the parameter list of a demangled name"""
    depth = 0
    i = len(s) - 1
    # scan from the right: the parameter list is the last balanced (...) possibly followed by ' const'
    end = s.rfind(')')
    if end < 0:
        return -1
    depth = 0
    for i in range(end, -1, -1):
        if s[i] == ')':
            depth += 1
        elif s[i] == '(':
            depth -= 1
            if depth == 0:
                return i
    return -1


def walk(n):
    yield n
    for k in n.get('inner', []):
        if isinstance(k, dict) and k:
            yield from walk(k)
