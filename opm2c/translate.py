"""AST-driven mechanical translation of C++ functions of /repo into C.

Rules are by AST node kind and by resolved callee; nothing is matched textually.  Anything
not covered raises ExtractError (-> the check exits 2, "undecided").

What is dropped (and logged in `dropped`): exception message construction and logging,
`throw` -> VERIF_THROW(type), `assert` -> VERIF_ASSERT, namespaces/access/const/attributes,
cleanups of temporaries.  Everything else (arithmetic, comparisons, control flow,
evaluation order, casts, constants) is carried over one-to-one."""
import hashlib
import re
from .astdb import ExtractError, walk
from .ctypes_map import TypeMap, strip_cv, template_parts, ident, SCALAR_C, BUILTIN

MATH1 = {'sqrt', 'log', 'exp', 'sin', 'cos', 'tan', 'asin', 'acos', 'atan', 'sinh', 'cosh', 'tanh',
         'asinh', 'acosh', 'atanh', 'log10', 'log2', 'floor', 'ceil', 'cbrt', 'round', 'trunc'}
MATH2 = {'pow', 'atan2', 'fmod', 'hypot'}
OPNAMES = {'operator+=': 'op_add_assign', 'operator-=': 'op_sub_assign', 'operator*=': 'op_mul_assign',
           'operator/=': 'op_div_assign', 'operator+': 'op_add', 'operator-': 'op_sub',
           'operator*': 'op_mul', 'operator/': 'op_div', 'operator=': 'op_assign',
           'operator==': 'op_eq', 'operator!=': 'op_ne', 'operator<': 'op_lt', 'operator>': 'op_gt',
           'operator<=': 'op_le', 'operator>=': 'op_ge', 'operator[]': 'op_index',
           'operator()': 'op_call', 'operator<<': 'op_shl', 'operator>>': 'op_shr'}
SINK_CALLEES = {'OpmLog', 'Logger'}


def is_expr(n):
    k = (n or {}).get('kind', '')
    return k.endswith(('Expr', 'Operator', 'Literal', 'ExprWithCleanups'))


class LoopInfo:
    def __init__(self, k, kind, file, line):
        self.k, self.kind, self.file, self.line = k, kind, file, line
        self.contract = None


class CFunc:
    def __init__(self):
        self.cname = self.qual = self.ret = self.text = self.file = None
        self.line = 0
        self.params = []      # (ctype, name, is_ref)
        self.loops = []
        self.dropped = []
        self.sha = ''
        self.calls = set()    # cnames of extracted callees
        self.stubs = set()    # library / opaque stubs used
        self.self_type = None

    def proto(self):
        ps = ', '.join('%s %s' % (t, n) for t, n, _ in self.params) or 'void'
        return '%s %s(%s)' % (self.ret, self.cname, ps)


class Translator:
    def __init__(self, db, tm=None, fns=None, loops=None, ghosts=None, opaque=(), lib=None,
                 records=None, aliases=None):
        self.db = db
        self.tm = tm or TypeMap()
        self.tm.record_resolver = self.resolve_record
        self.fns = fns or {}            # mangledName -> cname
        self.loopc = loops or {}        # (cname, k) -> dict(invariant=[(name, expr)], assigns=[..], decreases=expr)
        self.ghosts = ghosts or {}      # (cname, anchor) -> C text
        self.opaque_ok = [re.compile(p) for p in opaque]
        self.lib = lib or {}
        self.records = records or {}    # C++ spelling -> forced C struct name
        self.globals = {}               # name -> C text of '#define'
        self.global_order = []
        self.opaque_decls = {}          # cname -> prototype text
        self._rec_cache = {}
        self.ctor_decls = {}
        self.locals, self.ref_locals, self.alias = {}, set(), {}
        self.pre, self.no_hoist, self.called = [], False, False
        self.post = []
        self.var_types = {}
        self.helpers = set()
        self.opaque_fields = set()
        self.instantiate = []
        self.rec_decls = {}
        self.global_arrays = {}
        self.global_fn_deps = set()
        self.uses_tabs = False
        self.opaque_arrays = set()
        self.strlits = []
        self.lib_rx = []
        self.cur = None

    # ================================================================== records
    def resolve_record(self, spelling):
        if spelling in self._rec_cache:
            return self._rec_cache[spelling]
        base, args = template_parts(spelling)
        short = base.split('::')[-1]
        if args is None:
            for n in self.db.byid.values():
                if n['kind'] == 'EnumDecl' and n.get('name') == short:
                    self._rec_cache[spelling] = 'c_enum'
                    return 'c_enum'
        rec = self.find_record_decl(spelling)
        if rec is None:
            r = self.resolve_typedef(spelling)
            self._rec_cache[spelling] = r
            return r
        r = self.record_ctype(rec)
        self._rec_cache[spelling] = r
        return r

    def find_record_decl(self, spelling):
        base, args = template_parts(spelling)
        short = base.split('::')[-1]
        incomplete = None
        for n in self.db.byid.values():
            if n['kind'] not in ('CXXRecordDecl', 'ClassTemplateSpecializationDecl') or n.get('name') != short:
                continue
            if args is not None:
                if n['kind'] != 'ClassTemplateSpecializationDecl':
                    continue
                if n.get('completeDefinition'):
                    targs = [re.sub(r'\s+', '', self._targ(k)) for k in n.get('inner', []) if k.get('kind') == 'TemplateArgument']
                    want = [re.sub(r'\s+', '', strip_cv(a)) for a in args]
                    want = [re.sub(r'[uUlL]+$', '', w) if w[:1].isdigit() else w for w in want]
                    if want != targs[:len(want)]:
                        continue
                    return n
                incomplete = n
                continue
            elif n['kind'] != 'CXXRecordDecl' or not n.get('completeDefinition'):
                continue
            if n.get('_parent', {}) and (n['_parent'] or {}).get('kind') == 'ClassTemplateDecl':
                continue        # the pattern of a template is not a type
            if not self.qual_matches(n, base):
                continue
            return n
        if args is not None:
            return self.instantiate_pattern(short, args)
        return None

    def decl_chain(self, n):
        """names of the enclosing classes / namespaces of a declaration, innermost first"""
        out, par, hops = [], n, 0
        while par is not None and hops < 12:
            nxt = self.db.byid.get(par.get('parentDeclContextId')) if par.get('parentDeclContextId') else par.get('_parent')
            if nxt is None:
                break
            if nxt.get('kind') in ('CXXRecordDecl', 'ClassTemplateSpecializationDecl', 'NamespaceDecl', 'ClassTemplateDecl'):
                if nxt.get('kind') != 'ClassTemplateDecl':
                    out.append(nxt.get('name') or '(anonymous namespace)')
            par, hops = nxt, hops + 1
        return out

    def qual_matches(self, n, base):
        """does the (possibly partially) qualified spelling `base` name declaration n?"""
        comps = [c for c in re.sub(r'<[^<>]*>', '', base).split('::') if c][:-1]
        if not comps:
            return True
        chain = self.decl_chain(n)          # innermost first
        if len(chain) == 0:
            return True                     # top-level dump without parent information: cannot refute
        want = list(reversed(comps))
        m = min(len(chain), len(want))
        return chain[:m] == want[:m]

    def instantiate_pattern(self, short, args):
        """implicit instantiation (clang dumps no body for it): the template pattern's fields with the template
        type parameters replaced by the arguments"""
        for n in self.db.byid.values():
            if n['kind'] != 'ClassTemplateDecl' or n.get('name') != short:
                continue
            pat = [k for k in n.get('inner', []) if k.get('kind') == 'CXXRecordDecl' and k.get('completeDefinition')]
            params = [k for k in n.get('inner', []) if k.get('kind') in ('TemplateTypeParmDecl', 'NonTypeTemplateParmDecl')]
            if not pat or len(params) < len(args):
                continue
            sub = {p.get('name'): a for p, a in zip(params, args) if p.get('name')}
            def st(t):
                for k, v in sub.items():
                    t = re.sub(r'\b%s\b' % re.escape(k), v, t)
                return t
            inner = [{'kind': 'TemplateArgument', 'type': {'qualType': a}} for a in args]
            for k in pat[0].get('inner', []):
                if k.get('kind') == 'FieldDecl':
                    f = dict(k)
                    f['type'] = {'qualType': st(k['type']['qualType'])}
                    inner.append(f)
                elif k.get('kind') in ('TypedefDecl', 'TypeAliasDecl'):
                    f = dict(k)
                    f['type'] = {'qualType': st(k['type'].get('qualType', ''))}
                    inner.append(f)
            syn = {'id': 'syn:%s<%s>' % (short, ','.join(args)), 'kind': 'ClassTemplateSpecializationDecl', 'name': short,
                   'completeDefinition': True, 'inner': inner, '_parent': n}
            if pat[0].get('bases'):
                # base classes of the pattern (with the template parameters substituted) become base sub-objects
                syn['bases'] = [dict(b, type={'qualType': st(b['type']['qualType'])}) for b in pat[0]['bases']]
            return syn
        return None

    def resolve_typedef(self, spelling):
        """member typedef:  Rec<..>::Name  or a bare Name inside the current method's class"""
        if '::' in spelling:
            # split at the last top-level '::'
            depth, cut = 0, -1
            for i, ch in enumerate(spelling):
                if ch == '<':
                    depth += 1
                elif ch == '>':
                    depth -= 1
                elif ch == ':' and depth == 0 and spelling[i:i + 2] == '::':
                    cut = i
            if cut < 0:
                return None
            rec = self.find_record_decl(spelling[:cut])
            name = spelling[cut + 2:]
        else:
            rec = getattr(self, 'cur_record', None)
            name = spelling
        if rec is None:
            return None
        for k in rec.get('inner', []):
            if k.get('kind') in ('TypedefDecl', 'TypeAliasDecl') and k.get('name') == name:
                t = k['type']
                return self.tm.tname(t)
        return None

    @staticmethod
    def _targ(k):
        if 'value' in k:
            return str(k['value'])
        t = k.get('type', {})
        return t.get('desugaredQualType') or t.get('qualType') or '?'

    # ================================================================== helpers
    def abort(self, n, what):
        n = n or {}
        r = n.get('range', {}).get('begin', {})
        raise ExtractError('%s: cannot translate %s (%s) at %s:%s' % (
            self.cur.qual if self.cur else '?', what, n.get('kind'), r.get('_file'), r.get('_line')))

    def ty(self, n):
        return self.tm.tname(n['type'])

    def callee_decl(self, c):
        for x in walk(c):
            if x.get('kind') in ('DeclRefExpr', 'MemberExpr'):
                if x['kind'] == 'DeclRefExpr':
                    return x['referencedDecl'], x
                return {'id': x.get('referencedMemberDecl'), 'name': x.get('name'), 'kind': 'member'}, x
        return None, None

    def full_decl(self, ref):
        d = self.db.byid.get(ref.get('id')) if ref else None
        if d is not None and ref.get('name') and d.get('name') and d['name'] != ref['name']:
            raise ExtractError('AST cross-reference mismatch: %s vs %s' % (ref.get('name'), d.get('name')))
        return d

    def fn_cname(self, ref):
        d = self.full_decl(ref)
        if d is None:
            return None
        m = d.get('mangledName')
        return self.fns.get(m)

    # ================================================================== global constants
    def global_by_name(self, qual):
        cands = [n for n in self.db.byid.values() if n.get('kind') == 'VarDecl' and
                 (n.get('_qual') == qual or (n.get('_qual') or '').endswith('::' + qual))
                 and any(is_expr(k) for k in n.get('inner', []))]
        ids = {c.get('mangledName') for c in cands}
        if len(ids) != 1:
            raise ExtractError('@global %s: %d matching definitions' % (qual, len(ids)))
        saved = self.cur
        if self.cur is None:
            self.cur = CFunc()
            self.cur.qual = self.cur.cname = '<globals>'
        try:
            return self.global_ref({'id': cands[0]['id'], 'name': cands[0]['name']})
        finally:
            self.cur = saved

    def global_ref(self, ref):
        before = set(self.cur.calls)
        try:
            return self.global_ref_(ref)
        finally:
            self.global_fn_deps |= (self.cur.calls - before)

    def global_ref_(self, ref):
        """reference to a namespace-scope constant: emitted as a macro of its initialiser"""
        d = self.full_decl(ref)
        name = ref['name']
        if d is None:
            raise ExtractError('%s: reference to global %s outside the dumped declarations'
                               % (self.cur.qual, name))
        gq = (d.get('_qual') or name).replace('(anonymous namespace)::', '')
        if gq.startswith('Opm::'):
            gq = gq[5:]
        gname = 'G_' + ident(gq)
        if gname in self.globals:
            return gname
        inits = [k for k in d.get('inner', []) if is_expr(k)]
        if not inits:
            # declaration without initialiser here; look for a redeclaration with one
            for o in self.db.byid.values():
                if o.get('kind') == 'VarDecl' and o.get('name') == name and o.get('mangledName') == d.get('mangledName') \
                        and any(is_expr(k) for k in o.get('inner', [])):
                    inits = [k for k in o['inner'] if is_expr(k)]
                    break
        if not inits:
            raise ExtractError('global %s has no constant initialiser' % name)
        if 'const' not in d['type']['qualType'] and not d.get('constexpr'):
            raise ExtractError('global %s is not const' % name)
        am = re.fullmatch(r'(.*)\[(\d+)\]', strip_cv(d['type'].get('desugaredQualType') or d['type']['qualType']))
        if am:
            return self.global_array(d, gname, inits[-1], am.group(1), int(am.group(2)))
        self.globals[gname] = None
        txt = self.e(inits[-1])
        ct = self.ty(d)
        self.globals[gname] = '#define %s ((%s)(%s))' % (gname, ct, txt)
        self.global_order.append(gname)
        return gname

    def global_array(self, d, gname, init, elem, n):
        """constant namespace-scope array: an accessor function  G_name(i)  over its initialisers"""
        x = init
        while x.get('kind') in ('ExprWithCleanups', 'ImplicitCastExpr', 'ConstantExpr') and x.get('inner'):
            x = x['inner'][0]
        if x.get('kind') != 'InitListExpr':
            raise ExtractError('global array %s: initialiser is %s' % (gname, x.get('kind')))
        try:
            ect = self.tm.c(elem)
        except ExtractError:
            ect = None
        self.globals[gname] = None
        if ect is None or ect not in SCALAR_C:
            self.globals[gname] = '/* array %s of unmodelled element type %s */' % (gname, elem)
            self.global_order.append(gname)
            self.opaque_arrays.add(gname)
            return gname
        elems = [y for y in x.get('inner', []) if y]
        lines = ['static %s %s(c_long verif_i)' % (ect, gname), '{', '    switch (verif_i) {']
        for j, y in enumerate(elems):
            lines.append('    case %d: return %s;' % (j, self.e(y)))
        for j in range(len(elems), n):
            lines.append('    case %d: return 0;' % j)
        lines.append('    default: __CPROVER_assert(0, "%s: index within the %d-element table"); { %s verif_u; return verif_u; }' % (gname, n, ect))
        lines += ['    }', '}']
        self.global_arrays[gname] = ('\n'.join(lines), ect, n)
        self.globals[gname] = '/* array %s -> accessor */' % gname
        self.global_order.append(gname)
        return gname

    def enum_value(self, ref):
        d = self.full_decl(ref)
        if d is None:
            raise ExtractError('enum constant %s not in dump' % ref.get('name'))
        par = d['_parent']
        val = -1
        for k in par.get('inner', []):
            if k.get('kind') != 'EnumConstantDecl':
                continue
            ce = [x for x in walk(k) if x.get('kind') == 'ConstantExpr' and 'value' in x]
            if ce:
                val = int(ce[0]['value'])
            else:
                lit = [x for x in walk(k) if x.get('kind') == 'IntegerLiteral']
                val = int(lit[0]['value']) if (lit and k.get('inner')) else val + 1
            if k['id'] == d['id']:
                return '%d /*%s*/' % (val, d['name'])
        raise ExtractError('enum constant %s not found' % ref.get('name'))

    # ================================================================== expressions
    def e(self, n):
        k = n['kind']
        inner = [x for x in n.get('inner', []) if x]
        m = getattr(self, 'e_' + k, None)
        if m is None:
            self.abort(n, 'expression')
        return m(n, inner)

    def e_ParenExpr(self, n, i):
        return '(' + self.e(i[0]) + ')'

    def e_ConstantExpr(self, n, i):
        return self.e(i[0])

    def e_ExprWithCleanups(self, n, i):
        return self.e(i[0])
    e_MaterializeTemporaryExpr = e_ExprWithCleanups
    e_CXXBindTemporaryExpr = e_ExprWithCleanups
    e_SubstNonTypeTemplateParmExpr = lambda self, n, i: self.e(i[-1])
    e_CXXDefaultArgExpr = lambda self, n, i: self.abort(n, 'default argument')

    def e_IntegerLiteral(self, n, i):
        t = n['type']['qualType']
        suf = {'unsigned int': 'u', 'long': 'l', 'unsigned long': 'ul', 'long long': 'l',
               'unsigned long long': 'ul'}.get(t, '')
        if suf:
            return '((%s)%s%s)' % (self.ty(n), n['value'], suf)
        return n['value']

    def e_CharacterLiteral(self, n, i):
        return str(n['value'])

    def e_CXXBoolLiteralExpr(self, n, i):
        return '1' if n['value'] else '0'

    def e_FloatingLiteral(self, n, i):
        src = self.db.source_bytes(n)
        if src is None:
            self.abort(n, 'floating literal without source')
        s = src.decode().strip()
        mm = re.fullmatch(r'([0-9]*)\.?([0-9]*)(?:[eE]([+-]?[0-9]+))?[fFlL]?', s)
        if not mm or (mm.group(1) == '' and mm.group(2) == ''):
            self.abort(n, 'floating literal spelling %r' % s)
        ip, fp, ex = mm.group(1) or '0', mm.group(2) or '', int(mm.group(3) or 0)
        num = int(ip + fp)
        den_exp = len(fp) - ex
        den = 10 ** den_exp if den_exp >= 0 else 1
        if den_exp < 0:
            num *= 10 ** (-den_exp)
        if num < 2 ** 62 and den < 2 ** 62:
            return 'RQ(%d, %d, %s)' % (num, den, s)
        return 'RQ_BIG(%s, %s, %s)' % (self.bigint(num), self.bigint(den), s)

    @staticmethod
    def bigint(v):
        """an integer beyond 64 bits as exact real arithmetic over 18-digit chunks"""
        chunks = []
        while v:
            chunks.append(v % 10 ** 18)
            v //= 10 ** 18
        chunks = chunks[::-1] or [0]
        txt = '((real_t)%dL)' % chunks[0]
        for c in chunks[1:]:
            txt = '(%s * ((real_t)1000000000000000000L) + ((real_t)%dL))' % (txt, c)
        return txt

    def e_CXXNullPtrLiteralExpr(self, n, i):
        return '0'

    def e_CXXThisExpr(self, n, i):
        return 'self'

    def e_DeclRefExpr(self, n, i):
        d = n['referencedDecl']
        kind = d['kind']
        if kind == 'EnumConstantDecl':
            return self.enum_value(d)
        if kind in ('ParmVarDecl', 'VarDecl', 'BindingDecl'):
            if d['id'] in self.alias:
                return self.alias[d['id']]
            if d['id'] in self.locals:
                name = self.locals[d['id']]
                if d['id'] in self.ref_locals:
                    return '(*%s)' % name
                return name
            if d['id'] in getattr(self, 'lambdas', {}):
                # a capture-less lambda handed on as a VALUE (e.g. to a function template): the closure object has no state;
                # the callee's instantiation for this closure type is a function of its own (extracted or under contract)
                lam = self.lambdas[d['id']]
                caps = [x for x in walk(lam.get('_parent') or {}) if x.get('kind') == 'LambdaExpr' for c in x.get('inner', []) if c and c.get('kind') == 'FieldDecl'] if False else []
                ct = self.tm.tname(n['type']).rstrip(' *').rstrip()
                if not ct.startswith('struct '):
                    self.abort(n, 'lambda %s used as a value of type %s' % (d.get('name'), ct))
                return '((%s){ 0 })' % ct
            if kind == 'VarDecl':
                full = self.full_decl(d)
                if full is not None and full.get('_parent') is not None and \
                        full['_parent'].get('kind') in ('DeclStmt',) and full.get('storageClass') != 'static':
                    self.abort(n, 'reference to local %s of an enclosing scope' % d['name'])
                return self.global_ref(d)
            self.abort(n, 'unknown variable ' + d['name'])
        if kind in ('FunctionDecl', 'CXXMethodDecl'):
            self.abort(n, 'function used as a value: ' + d['name'])
        self.abort(n, 'reference to ' + kind)

    def _arrow(self, base):
        if base.startswith('(*') and base.endswith(')') and self._balanced(base[2:-1]):
            return base[2:-1] + '->'
        if base == 'self':
            return 'self->'
        return base + '.'

    @staticmethod
    def _balanced(s):
        d = 0
        for ch in s:
            if ch == '(':
                d += 1
            elif ch == ')':
                d -= 1
                if d < 0:
                    return False
        return d == 0

    def e_MemberExpr(self, n, i):
        base = self.e(i[0])
        bt = i[0]['type'].get('desugaredQualType') or i[0]['type']['qualType']
        name = n['name']
        bts = strip_cv(bt.rstrip('*& '))
        b0 = template_parts(bts)[0]
        if b0 in ('std::pair', 'pair'):
            name = {'first': '_0', 'second': '_1'}[name]
        if n.get('isArrow'):
            if base == 'self':
                return 'self->' + name
            if base.startswith('OPT_VAL(') or base.startswith('UPTR_VAL('):
                return base + '.' + name
            return '(%s)->%s' % (base, name)
        return self._arrow(base) + name

    def e_ArraySubscriptExpr(self, n, i):
        base = i[0]
        b0 = base
        while b0.get('kind') in ('ImplicitCastExpr', 'ParenExpr') and b0.get('inner'):
            b0 = b0['inner'][0]
        if b0.get('kind') == 'DeclRefExpr' and b0['referencedDecl'].get('kind') == 'VarDecl' \
                and b0['referencedDecl']['id'] not in self.locals:
            g = self.global_ref(b0['referencedDecl'])
            if g in self.global_arrays:
                return '%s(%s)' % (g, self.e(i[1]))
        if b0.get('kind') == 'DeclRefExpr' and b0['referencedDecl']['id'] in getattr(self, 'cptr_params', {}):
            et = self.cptr_params[b0['referencedDecl']['id']]
            cn = 'OPQ_PTR_AT_' + ident(et)
            self.opaque_decls[cn] = (et, ['c_opaque', 'c_ulong'], 'element of a caller-owned constant array')
            return '%s(%s, %s)' % (cn, self.locals[b0['referencedDecl']['id']], self.e(i[1]))
        try:
            bt = self.tm.tname(base['type'])
        except ExtractError:
            bt = None
        if bt == 'c_tabid':
            self.uses_tabs = True
            return 'verif_tab_at(%s, %s)' % (self.e(base), self.e(i[1]))
        return '%s[%s]' % (self.e(i[0]), self.e(i[1]))

    def e_StringLiteral(self, n, i):
        v = n.get('value', '""')
        if v not in self.strlits:
            self.strlits.append(v)
        return '((c_strid)%d /* %s */)' % (self.strlits.index(v) + 1, v.replace('*/', '* /'))

    def _cast(self, n, i, explicit):
        ck = n.get('castKind')
        if ck == 'ArrayToPointerDecay':
            try:
                tt = self.ty(n)
            except ExtractError:
                tt = None
            b0 = i[-1]
            if tt in ('c_tabid', 'c_opaque') and b0.get('kind') == 'DeclRefExpr' and b0['referencedDecl'].get('kind') == 'VarDecl':
                g = self.global_ref(b0['referencedDecl'])
                if tt == 'c_opaque' or g in self.opaque_arrays:
                    return '((c_opaque)0)'
                if g in self.global_arrays:
                    self.uses_tabs = True
                    return 'TAB_' + g
        x = self.e(i[-1]) if i else ''
        if ck in ('LValueToRValue', 'NoOp', 'FunctionToPointerDecay', 'ArrayToPointerDecay',
                  'ConstructorConversion', 'UserDefinedConversion', 'DerivedToBase', 'UncheckedDerivedToBase'):
            if ck in ('DerivedToBase', 'UncheckedDerivedToBase'):
                try:
                    src_ct = self.tm.tname(i[-1]['type']).rstrip(' *').rstrip()
                except ExtractError:
                    src_ct = None
                if src_ct not in ('c_opaque', None):
                    # the base sub-object is the member verif_base_<Base> of the derived record (record_ctype)
                    path = n.get('path') or []
                    if not path or not src_ct or not src_ct.startswith('struct '):
                        self.abort(n, 'base class conversion without a path')
                    is_ptr = i[-1]['type']['qualType'].rstrip().endswith('*')
                    cur = src_ct
                    for hop in path:
                        fld = None
                        for ft, fn in (self.tm.kinds.get(cur) or ('', []))[1]:
                            if fn == 'verif_base_' + hop.get('name', '') or (fn.startswith('verif_base_') and fn.endswith('_' + hop.get('name', '\0'))):
                                fld, cur = fn, ft
                                break
                        if fld is None:
                            self.abort(n, 'base class %s is not a modelled base of %s' % (hop.get('name'), cur))
                        if is_ptr and self.has_unbounded(src_ct):
                            # CBMC cannot form the address of a member of a record holding unbounded arrays: the base
                            # sub-object is copied into a local for the statement (and back, unless const)
                            if self.no_hoist:
                                self.abort(n, 'base sub-object materialised in a loop condition/increment')
                            self.tmpn = getattr(self, 'tmpn', 0) + 1
                            t = 'verif_b%d' % self.tmpn
                            self.pre.append('%s %s = (%s)->%s;' % (cur, t, x, fld))
                            if not n['type']['qualType'].lstrip().startswith('const '):
                                self.post.append('(%s)->%s = %s;' % (x, fld, t))
                            x = '(&%s)' % t
                        else:
                            x = '(&(%s)->%s)' % (x, fld) if is_ptr else '(%s).%s' % (x, fld)
            return x
        if ck in ('IntegralCast', 'IntegralToFloating', 'FloatingCast', 'FloatingToIntegral',
                  'IntegralToBoolean', 'FloatingToBoolean', 'BooleanToSignedIntegral'):
            ct = self.ty(n)
            src = self.tm.tname(i[-1]['type'])
            if ck == 'IntegralToFloating':
                if src == '_Bool':
                    return '((%s) ? (%s)1 : (%s)0)' % (x, ct, ct)      # CBMC has no bool -> real cast of a symbolic value
                if re.match(r'^[\s(]*-?\d+[uUlL]*[\s)]*$', x):
                    return 'INT_TO_REAL(%s, %s)' % (src.replace(' ', '_'), x)
                return 'INT_TO_REAL_VAR(%s, %s)' % (src.replace(' ', '_'), x)
            if ck == 'FloatingToIntegral':
                return 'REAL_TO_INT(%s, %s)' % (ct.replace(' ', '_'), x)
            if ck == 'FloatingCast':
                return 'REAL_CAST(%s, %s)' % (ct, x)
            if ck in ('IntegralToBoolean', 'FloatingToBoolean'):
                return '((%s) != 0)' % x
            return 'CAST(%s, %s, %s)' % (ct, src.replace(' ', '_'), x)
        if ck == 'BitCast' and explicit:
            return '((%s)(%s))' % (self.ty(n), x)
        if ck == 'NullToPointer':
            return '0'
        if ck == 'ToVoid':
            return '((void)(%s))' % x
        if ck == 'PointerToBoolean':
            return '((%s) != 0)' % x
        self.abort(n, 'cast kind %s' % ck)

    def e_ImplicitCastExpr(self, n, i):
        return self._cast(n, i, False)

    def e_CXXStaticCastExpr(self, n, i):
        return self._cast(n, i, True)
    e_CXXFunctionalCastExpr = e_CXXStaticCastExpr
    e_CStyleCastExpr = e_CXXStaticCastExpr
    e_CXXReinterpretCastExpr = e_CXXStaticCastExpr
    e_CXXConstCastExpr = e_CXXStaticCastExpr

    def _is_real(self, n):
        return self.tm.tname(n['type']) in ('real_t', 'realf_t')

    def e_BinaryOperator(self, n, i):
        op = n['opcode']
        a, b = self.e(i[0]), self.e(i[1])
        if op in ('/', '%') :
            if self._is_real(n):
                return 'RDIV(%s, %s)' % (a, b)
            return 'IDIV(%s, %s)' % (a, b) if op == '/' else 'IMOD(%s, %s)' % (a, b)
        if op == ',':
            return '(%s, %s)' % (a, b)
        if op == '*' and getattr(self, 'abstract_mul', False) and not self._is_real(n):
            lit = lambda t: re.match(r'^[\s(]*(CAST\(\w+, \w+, )?-?\d+[uUlL]*[\s)]*$', t)
            if not lit(a) and not lit(b):
                if self.tm.tname(n['type']) != 'c_ulong':
                    self.abort(n, 'product of two non-constant integers of type %s in an @abstractmul unit' % self.tm.tname(n['type']))
                self.cur.stubs.add('size_t product as an uninterpreted function (@abstractmul; sound abstraction of machine multiplication)')
                return 'VERIF_UMUL(%s, %s)' % (a, b)
        return '%s %s %s' % (a, op, b)

    def e_CompoundAssignOperator(self, n, i):
        op = n['opcode']
        a, b = self.e(i[0]), self.e(i[1])
        if op in ('/=', '%='):
            if self.tm.tname(i[0]['type']) in ('real_t', 'realf_t'):
                return '%s = RDIV(%s, %s)' % (a, a, b)
            f = 'IDIV' if op == '/=' else 'IMOD'
            return '%s = %s(%s, %s)' % (a, f, a, b)
        return '%s %s %s' % (a, op, b)

    def e_UnaryOperator(self, n, i):
        op = n['opcode']
        x = self.e(i[0])
        if n.get('isPostfix'):
            return x + op
        if op == '*':
            try:
                oct_ = self.tm.tname(i[0]['type'])
            except ExtractError:
                oct_ = None
            if oct_ == 'c_textptr':
                return 'TEXT_AT(%s)' % x       # read through a position of the ghost text buffer (bounds obligation in the macro)
            if oct_ and oct_.startswith('struct ') and not oct_.rstrip().endswith('*') and i[0]['type']['qualType'].rstrip().endswith('*'):
                # a pointer member that the unit maps onto the pointed-to object itself (@typemap T * = struct ...; never null)
                self.cur.stubs.add('pointer member modelled as the pointed-to object (never null; aliasing between objects not modelled)')
                return x
            return '(*%s)' % x
        if op == '&':
            if x.startswith('(*') and x.endswith(')') and self._balanced(x[2:-1]):
                return x[2:-1]
            return '(&%s)' % x
        return '%s(%s)' % (op, x) if op in ('-', '+', '!', '~') else op + x

    def e_ConditionalOperator(self, n, i):
        return '(%s ? %s : %s)' % (self.e(i[0]), self.e(i[1]), self.e(i[2]))

    def e_InitListExpr(self, n, i):
        ct = self.ty(n)
        kind = self.tm.kinds.get(ct)
        if kind and kind[0] == 'arr':
            # std::array<T,N>{...}: clang nests the inner C array as one InitListExpr
            elems = i
            if len(i) == 1 and i[0].get('kind') == 'InitListExpr':
                elems = [x for x in i[0].get('inner', []) if x]
                filler = i[0].get('array_filler')
            else:
                filler = n.get('array_filler')
            vals = []
            for x in elems:
                if x.get('kind') == 'ImplicitValueInitExpr':
                    continue
                vals.append(self.e(x))
            vals += ['0'] * (kind[2] - len(vals))
            return self.mk_struct(ct, ['a[%d]' % j for j in range(kind[2])], vals)
        if kind and kind[0] == 'rec':
            rec = self.rec_decls.get(ct)
            vals = []
            for j, x in enumerate(i):
                if x.get('kind') == 'CXXDefaultInitExpr':
                    fname = kind[1][j][1]
                    fd = [k for k in (rec or {}).get('inner', []) if k.get('kind') == 'FieldDecl' and k.get('name') == fname]
                    init = [y for y in (fd[0].get('inner', []) if fd else []) if y and is_expr(y)]
                    if not init:
                        self.abort(x, 'default member initialiser of %s.%s' % (ct, fname))
                    vals.append(self.e(init[-1]))
                else:
                    vals.append(self.e(x))
            return self.mk_struct(ct, [f[1] for f in kind[1]][:len(vals)], vals)
        vals = [self.e(x) for x in i]
        if kind and kind[0] == 'tup':
            return self.mk_struct(ct, ['_%d' % j for j in range(len(vals))], vals)
        if kind and kind[0] == 'rec':
            return self.mk_struct(ct, [f[1] for f in kind[1]][:len(vals)], vals)
        if ct in SCALAR_C and len(vals) == 1:
            return vals[0]
        if ct in SCALAR_C and not vals:
            return '((%s)0)' % ct
        self.abort(n, 'initialiser list of type ' + ct)

    def mk_struct(self, ct, fields, vals):
        self.tmpn = getattr(self, 'tmpn', 0) + 1
        t = 'verif_s%d' % self.tmpn
        return '({ %s %s; %s %s; })' % (ct, t, ' '.join('%s.%s = %s;' % (t, f, v) for f, v in zip(fields, vals)), t)

    def e_ImplicitValueInitExpr(self, n, i):
        return '((%s)0)' % self.ty(n)

    def e_CXXScalarValueInitExpr(self, n, i):
        return '((%s)0)' % self.ty(n)

    def e_UnaryExprOrTypeTraitExpr(self, n, i):
        if n.get('name') == 'sizeof':
            if 'argType' in n:
                t = n['argType'].get('desugaredQualType') or n['argType']['qualType']
                return 'SIZEOF_%s' % ident(strip_cv(t))
            t = i[0]['type'].get('desugaredQualType') or i[0]['type']['qualType']
            return 'SIZEOF_%s' % ident(strip_cv(t))
        self.abort(n, 'type trait')

    # ---- construction ------------------------------------------------------------------
    def e_CXXConstructExpr(self, n, i):
        ct = self.ty(n)
        if ct == 'c_opaque':
            return '((c_opaque)0)'
        kind = self.tm.kinds.get(ct)
        args = [x for x in i if x.get('kind') != 'CXXDefaultArgExpr']
        ctor_t = n.get('ctorType', {}).get('qualType', '')
        # copy / move of a value-modelled type
        if len(args) == 1:
            at = self.tm.tname(args[0]['type'])
            if at.rstrip(' *') == ct and (kind or ct in SCALAR_C):
                return self.e(args[0])
        if kind and kind[0] == 'tup' and len(args) == len(kind[1]):
            return self.mk_struct(ct, ['_%d' % j for j in range(len(args))], [self.e(a) for a in args])
        if kind and kind[0] == 'tup' and not args:
            return '((%s){ 0 })' % ct
        if kind and kind[0] == 'vec' and not args:
            # std::vector<T>(): empty
            self.tmpn = getattr(self, 'tmpn', 0) + 1
            t = 'verif_v%d' % self.tmpn
            return '({ %s %s; VEC_INIT_EMPTY(%s); %s; })' % (ct, t, t, t)
        if kind and kind[0] == 'vec' and len(args) == 1 and self.tm.tname(args[0]['type']) in SCALAR_C:
            # std::vector<T>(n): n value-initialised elements
            self.tmpn = getattr(self, 'tmpn', 0) + 1
            t = 'verif_v%d' % self.tmpn
            if self.instantiate:
                # quantifier-free: value-initialisation stated at the unit's ghost indices only (weaker, sound)
                return '({ %s %s; %s.size = %s; %s %s; })' % (
                    ct, t, t, self.e(args[0]), ' '.join('__CPROVER_assume(%s.data[%s] == 0);' % (t, g) for g in self.instantiate), t)
            return '({ %s %s; %s.size = %s; __CPROVER_assume(__CPROVER_forall { c_ulong verif_q; %s.data[verif_q] == 0 }); %s; })' % (
                ct, t, t, self.e(args[0]), t, t)
        if kind and kind[0] == 'vec' and len(args) == 2 and self.tm.tname(args[0]['type']) in SCALAR_C and \
                self.tm.tname(args[1]['type']).rstrip(' *').rstrip() == kind[1]:
            # std::vector<T>(n, value)
            self.tmpn = getattr(self, 'tmpn', 0) + 1
            t = 'verif_v%d' % self.tmpn
            return '({ %s %s; %s.size = %s; __typeof__(%s.data[0]) verif_fill = %s; __CPROVER_assume(__CPROVER_forall { c_ulong verif_q; %s.data[verif_q] == verif_fill }); %s; })' % (
                ct, t, t, self.e(args[0]), t, self.e(args[1]), t, t)
        if kind and kind[0] == 'opt' and not args:
            return '((%s){ 0 })' % ct
        if kind and kind[0] == 'opt' and len(args) == 1:
            return '((%s){ 1, %s })' % (ct, self.e(args[0]))
        if kind and kind[0] == 'arr' and not args:
            return self.mk_struct(ct, ['a[%d]' % j for j in range(kind[2])], ['0'] * kind[2])
        # user constructor in the extraction set?
        cn = self._ctor_cname(n, ct, args)
        if cn:
            self.cur.calls.add(cn)
            al = ', '.join(['&verif_tmp'] + [self.arg(a, p) for a, p in zip(args, self._ctor_params(cn))])
            return '({ %s verif_tmp; %s(%s); verif_tmp; })' % (ct, cn, al)
        if kind and kind[0] == 'rec' and not args and n.get('zeroing'):
            return '((%s){ 0 })' % ct
        if ct.startswith('struct ') and not kind and not args:
            # an abstraction struct declared by the unit's prelude (typemap): default construction = empty / zero
            return '((%s){ 0 })' % ct
        key = 'ctor:%s:%d' % (ct, len(args))
        if key in self.lib:
            self.cur.stubs.add(self.lib[key])
            return '%s(%s)' % (self.lib[key], ', '.join(self.lib_arg(a) for a in args))
        self.abort(n, 'construction of %s via %s' % (ct, ctor_t))
    e_CXXTemporaryObjectExpr = e_CXXConstructExpr

    def _ctor_cname(self, n, ct, args):
        want = n.get('ctorType', {}).get('qualType', '')
        for m, cn in self.fns.items():
            d = self.ctor_decls.get(cn)
            if d is None:
                continue
            if d['type']['qualType'] == want and self._parent_struct(d) == ct:
                return cn
        return None

    def _ctor_params(self, cn):
        d = self.ctor_decls[cn]
        return [p for p in d.get('inner', []) if p.get('kind') == 'ParmVarDecl']

    def _parent_struct(self, d):
        return self.method_self_type(d)

    # ---- calls -------------------------------------------------------------------------
    def arg(self, a, param):
        """translate argument `a` for parameter decl `param` (reference params take addresses)"""
        pt = param['type']['qualType'] if isinstance(param, dict) else param
        x = self.e(a)
        if self.by_pointer(pt):
            return self.addr(a, x, mutable=('const' not in pt))
        return x

    def by_pointer(self, pt):
        pt = pt.strip()
        if not pt.endswith('&'):
            return False
        ct = self.tm.c(pt[:-1].rstrip('&'))
        if ct in SCALAR_C and strip_cv(pt[:-1]) != pt[:-1].strip():   # const scalar & -> by value
            return False
        return True

    def addr(self, a, x, mutable=True):
        if self.binds_temporary(a):
            return self.hoist(a, x)
        if x.startswith('VEC_AT(') and self._balanced(x[7:-1]) and x.endswith(')'):
            # address of an element of an unbounded (SMT array) vector: CBMC cannot form it; the element is
            # copied into a local for the duration of the statement and copied back afterwards
            ptr = self.hoist(a, x)
            if mutable:
                self.post.append('%s = %s;' % (x, ptr[1:]))
            return ptr
        if x.startswith('(*') and x.endswith(')') and self._balanced(x[2:-1]):
            return x[2:-1]
        if self._lvalue_text(x) or re.match(r'(OPT_VAL\(|UPTR_VAL\(|\(?[A-Za-z_]\w*(\.|->))', x) and not re.search(r'\w\(', x.replace('OPT_VAL(', '').replace('UPTR_VAL(', '')):
            if self.member_of_unbounded(x):
                # CBMC cannot form the address of a member of a record that holds unbounded arrays: the sub-object is
                # copied into a local for the statement (and back afterwards if the callee may modify it)
                ptr = self.hoist(a, x)
                if mutable:
                    self.post.append('%s = %s;' % (x, ptr[1:]))
                return ptr
            return '&' + x
        if a.get('valueCategory') == 'lvalue' and not re.match(r'[A-Za-z_]\w*\(', x):
            return '&' + x
        # a call translated as returning by value (const T& results), or any other non-addressable expression
        return self.hoist(a, x)

    def iter_container(self, x):
        """the (text of the) modelled vector an iterator-valued expression points into"""
        y = x
        while y.get('kind') in ('ImplicitCastExpr', 'ParenExpr', 'MaterializeTemporaryExpr', 'ExprWithCleanups', 'CXXBindTemporaryExpr',
                                'CXXConstructExpr', 'CXXFunctionalCastExpr') and y.get('inner'):
            ch = [z for z in y['inner'] if z and z.get('kind') != 'CXXDefaultArgExpr']
            if len(ch) != 1:
                break
            y = ch[0]
        k = y.get('kind')
        if k == 'DeclRefExpr' and y['referencedDecl']['id'] in getattr(self, 'iter_base', {}):
            return self.iter_base[y['referencedDecl']['id']]
        if k == 'CXXMemberCallExpr' and y['inner'][0].get('kind') == 'MemberExpr' and y['inner'][0].get('name') in ('begin', 'end', 'cbegin', 'cend'):
            o = self.e(y['inner'][0]['inner'][0])
            return '(*%s)' % o if y['inner'][0].get('isArrow') else o
        if k == 'CXXOperatorCallExpr' and len(y.get('inner', [])) >= 2:
            return self.iter_container(y['inner'][1])
        if k == 'CallExpr':
            ref, _ = self.callee_decl(y['inner'][0])
            if ref and ref.get('name') in ('transform', 'copy') and len(y['inner']) >= 4:
                return self.iter_container(y['inner'][3])
            if ref and ref.get('name') in ('min_element', 'max_element') and len(y['inner']) == 3:
                return self.iter_container(y['inner'][1])
        self.abort(x, 'iterator expression whose container is not known statically')

    def member_of_unbounded(self, x):
        """is the lvalue text x a proper sub-object (root->f / root.f ...) of a variable whose record type holds
        unbounded arrays?"""
        m = re.match(r'^\(?\*?([A-Za-z_]\w*)\)?(->|\.)\w', x)
        if not m or not self._lvalue_text(x.replace('(*', '').replace(')', '')) and not self._lvalue_text(x):
            return False
        rt = (self.var_types.get(m.group(1)) or '').rstrip(' *').rstrip()
        return bool(rt) and rt.startswith('struct ') and self.has_unbounded(rt)

    def hoist(self, a, x):
        """a temporary bound to a reference parameter: materialised as a local before the statement"""
        p = a.get('_parent')
        while p is not None and is_expr(p):
            if p.get('kind') == 'ConditionalOperator' or (p.get('kind') == 'BinaryOperator' and p.get('opcode') in ('&&', '||')):
                self.abort(a, 'temporary materialised inside a conditionally evaluated operand')
            p = p.get('_parent')
        if self.no_hoist:
            self.abort(a, 'temporary materialised in a loop condition/increment')
        ct = self.tm.tname(a['type']).rstrip(' *').rstrip()
        self.tmpn = getattr(self, 'tmpn', 0) + 1
        t = 'verif_t%d' % self.tmpn
        self.pre.append('%s %s = %s;' % (ct, t, x))
        return '&' + t

    @staticmethod
    def _lvalue_text(x):
        return re.fullmatch(r'[A-Za-z_][A-Za-z0-9_]*((\.|->)[A-Za-z_][A-Za-z0-9_]*|\[[^\[\]]*\])*', x) is not None

    def call_extracted(self, cn, d, self_arg, args):
        params = [p for p in d.get('inner', []) if p.get('kind') == 'ParmVarDecl']
        al = ([self_arg] if self_arg is not None else []) + [self.arg(a, p) for a, p in zip(args, params)]
        if len(args) != len(params):
            real_args = [a for a in args if a.get('kind') != 'CXXDefaultArgExpr']
            if len(real_args) != len(args):
                raise ExtractError('%s: call of %s relies on default arguments' % (self.cur.qual, cn))
        self.cur.calls.add(cn)
        self.called = True
        txt = '%s(%s)' % (cn, ', '.join(al))
        qt = d['type']['qualType']
        rt = qt[:qt.find('(')].strip()
        if rt.endswith('&') and not self.ret_by_value_decl(d, rt):
            return '(*%s)' % txt
        return txt

    def ret_by_value_decl(self, d, rt):
        saved = getattr(self, 'cur_record', None)
        self.cur_record = self.class_of(d) if d['kind'] in ('CXXMethodDecl',) else saved
        try:
            return self.ret_by_value(rt)
        finally:
            self.cur_record = saved

    def e_CallExpr(self, n, i):
        ref, refnode = self.callee_decl(i[0])
        args = i[1:]
        if ref is None:
            self.abort(n, 'indirect call')
        name = ref.get('name', '')
        cn = self.fn_cname(ref)
        if cn:
            return self.call_extracted(cn, self.full_decl(ref), None, args)
        full = self.full_decl(ref)
        return self.lib_call(n, name, full, None, args)

    def e_CXXMemberCallExpr(self, n, i):
        me = i[0]
        while me.get('kind') in ('ParenExpr', 'ImplicitCastExpr'):
            me = me['inner'][0]
        if me.get('kind') != 'MemberExpr':
            self.abort(n, 'member call through ' + me.get('kind', '?'))
        obj = me['inner'][0]
        ref = {'id': me.get('referencedMemberDecl'), 'name': me.get('name')}
        o = self.e(obj)
        if me.get('isArrow') and o.startswith(('OPT_VAL(', 'UPTR_VAL(')):
            # x->f() through optional / unique_ptr: the translated operand is the object itself
            ptr = '&' + o
        elif me.get('isArrow'):
            ptr = o
        else:
            ptr = o[2:-1] if (o.startswith('(*') and o.endswith(')') and self._balanced(o[2:-1])) else (
                '&' + o if self._lvalue_text(o) else None)
        cn = self.fn_cname(ref)
        if cn:
            dm = self.full_decl(ref)
            if o.startswith('VEC_AT(') and not me.get('isArrow'):
                ptr = self.addr(obj, o, mutable=not dm['type']['qualType'].rstrip().endswith('const'))
            elif ptr is not None and ptr == '&' + o and self.member_of_unbounded(o):
                # CBMC cannot form the address of a member of a record that holds unbounded arrays: the sub-object is
                # copied into a local for the statement (and back afterwards, unless the method is const)
                ptr = self.hoist(obj, o)
                if not dm['type']['qualType'].rstrip().endswith('const'):
                    self.post.append('%s = %s;' % (o, ptr[1:]))
            if ptr is None:
                ptr = self.hoist(obj, o)
            return self.call_extracted(cn, dm, ptr, i[1:])
        return self.lib_call(n, me.get('name'), self.full_decl(ref), (obj, o, ptr), i[1:])

    def inline_lambda(self, n, call, args):
        params = [p for p in call.get('inner', []) if p.get('kind') == 'ParmVarDecl']
        body = [b for b in call.get('inner', []) if b.get('kind') == 'CompoundStmt']
        if not body or len(params) != len(args):
            self.abort(n, 'lambda call shape')
        stmts = [x for x in body[0].get('inner', []) if x]
        if not stmts or stmts[-1].get('kind') != 'ReturnStmt' or any(
                y.get('kind') == 'ReturnStmt' for st in stmts[:-1] for y in walk(st)):
            self.abort(n, 'lambda body is not straight-line code ending in a single return')
        self.tmpn = getattr(self, 'tmpn', 0) + 1
        out = []
        saved_locals = dict(self.locals)
        for p, a in zip(params, args):
            nm = self.fresh(p['name'] + '_l%d' % self.tmpn)
            if self.by_pointer(p['type']['qualType']):
                self.abort(n, 'lambda parameter by reference')
            out.append('%s %s = %s;' % (self.tm.tname(p['type']).rstrip(' *') if p['type']['qualType'].rstrip().endswith('&') else self.ty(p), nm,
                                        a if isinstance(a, str) else self.e(a)))
            self.locals[p['id']] = nm
        for st in stmts[:-1]:
            if st.get('kind') != 'DeclStmt':
                self.abort(st, 'statement in inlined lambda')
            for v in st.get('inner', []):
                if v.get('kind') == 'DecompositionDecl':
                    out += self.decomposition(v)
                    continue
                init = [x for x in v.get('inner', []) if x and is_expr(x)]
                if v.get('kind') != 'VarDecl' or not init or v['type']['qualType'].rstrip().endswith('&'):
                    self.abort(v, 'declaration in inlined lambda')
                nm = self.fresh(v['name'] + '_l%d' % self.tmpn)
                self.locals[v['id']] = nm
                out.append('%s %s = %s;' % (self.ty(v), nm, self.e(init[-1])))
        ret = self.e([x for x in stmts[-1].get('inner', []) if x][0])
        return '({ %s %s; })' % (' '.join(out), ret)

    def e_CXXOperatorCallExpr(self, n, i):
        ref, _ = self.callee_decl(i[0])
        name = ref.get('name', '')
        args = i[1:]
        if name == 'operator()' and args:
            a0 = args[0]
            while a0.get('kind') in ('ImplicitCastExpr', 'ParenExpr') and a0.get('inner'):
                a0 = a0['inner'][0]
            if a0.get('kind') == 'DeclRefExpr' and a0['referencedDecl']['id'] in self.lambdas:
                return self.inline_lambda(n, self.lambdas[a0['referencedDecl']['id']], args[1:])
        try:
            a0ct = self.tm.tname(args[0]['type']).rstrip(' *').rstrip() if args else None
        except ExtractError:
            a0ct = None
        if a0ct == 'c_vecit':
            # iterators of modelled vectors are element positions; dereferencing goes through the bounds-checked element access
            if name == 'operator*' and len(args) == 1:
                return 'VEC_AT(%s, %s)' % (self.iter_container(args[0]), self.e(args[0]))
            if name in ('operator++', 'operator--'):
                x = self.e(args[0])
                return ('%s%s' % (x, name[-2:])) if len(args) == 2 else ('%s%s' % (name[-2:], x))
            if name in ('operator+=', 'operator-=') and len(args) == 2:
                return '%s %s %s' % (self.e(args[0]), name[len('operator'):], self.e(args[1]))
            if name in ('operator+', 'operator-', 'operator==', 'operator!=', 'operator<', 'operator<=', 'operator>', 'operator>=') and len(args) == 2:
                return '(%s %s %s)' % (self.e(args[0]), name[len('operator'):], self.e(args[1]))
            if name == 'operator=' and len(args) == 2:
                return '%s = %s' % (self.e(args[0]), self.e(args[1]))
        if name in ('operator==', 'operator!=') and len(args) == 2 and all(a.get('kind') == 'CXXTypeidExpr' and a.get('typeArg') for a in args):
            # typeid(A) == typeid(B) of two TYPES: decided by the (desugared) type spellings of this instantiation
            ta = [(a['typeArg'].get('desugaredQualType') or a['typeArg']['qualType']).replace(' ', '') for a in args]
            same = ta[0] == ta[1]
            return '1 /* typeid(%s) == typeid(%s) */' % tuple(ta) if same == (name == 'operator==') else '0 /* typeid(%s) vs typeid(%s) */' % tuple(ta)
        cn = self.fn_cname(ref)
        d = self.full_decl(ref)
        if cn:
            if d['kind'] == 'CXXMethodDecl':
                o = self.e(args[0])
                ptr = self.addr(args[0], o, mutable=not d['type']['qualType'].rstrip().endswith('const'))
                return self.call_extracted(cn, d, ptr, args[1:])
            return self.call_extracted(cn, d, None, args)
        return self.lib_call(n, name, d, None, args, operator=True)

    # ---- library table -----------------------------------------------------------------
    def obj_family(self, node):
        t = node['type'].get('desugaredQualType') or node['type']['qualType']
        t = strip_cv(t.rstrip('&* '))
        b = template_parts(t)[0].replace('std::__cxx11::', 'std::')
        if not b.startswith('std::'):
            # a project container that the unit maps onto the vector model (@typemap X = vec:<elem>)
            try:
                ct = self.tm.tname(node['type']).rstrip(' *').rstrip()
                if self.tm.kinds.get(ct, ('',))[0] == 'vec' and any(rx.fullmatch(t) or rx.fullmatch(strip_cv(t)) for rx, _ in self.tm.overrides):
                    return 'std::vector', t
            except ExtractError:
                pass
        return b, t

    def lib_call(self, n, name, full, obj, args, operator=False):
        A = lambda k: self.e(args[k])
        rt = None
        try:
            rt = self.ty(n)
        except ExtractError:
            pass
        # ---- free functions
        if obj is None and not operator:
            if name == 'get' and len(args) == 1:
                t = n['type']['qualType']
                mm = re.search(r'tuple_element_t<(\d+)', t)
                if mm:
                    return '%s_%s' % (self._arrow(A(0)), mm.group(1))
                # std::get<N> with desugared result type: find N from the callee's template args
                ref, rn = self.callee_decl(n['inner'][0])
                self.abort(n, 'std::get without index information')
            if name in MATH1 and len(args) == 1:
                self.cur.stubs.add('v_' + name)
                return 'v_%s(%s)' % (name, A(0))
            if name in MATH2 and len(args) == 2:
                self.cur.stubs.add('v_' + name)
                return 'v_%s(%s, %s)' % (name, A(0), A(1))
            if name in ('abs', 'fabs') and len(args) == 1:
                return 'V_ABS(%s, %s)' % (rt.replace(' ', '_'), A(0))
            if name in ('min', 'max') and len(args) == 2:
                return 'V_%s(%s, %s, %s)' % (name.upper(), rt.replace(' ', '_').rstrip('_*'), A(0), A(1))
            if name in ('isdigit', 'isspace', 'isalpha', 'isalnum', 'toupper', 'tolower') and len(args) == 1:
                self.cur.stubs.add('<cctype> %s in the "C" locale' % name)
                return 'V_%s(%s)' % (name.upper(), A(0))
            if name in ('strtof', 'strtod', 'atof', 'atoi', 'strtol') and args:
                a0 = self.e(args[0])
                if a0.startswith('VEC_DATA('):
                    self.cur.stubs.add('%s: reads a NUL-terminated string (library precondition)' % name)
                    return 'V_STRTOX(%s, %s)' % (name, a0[9:-1])
            if name in ('isfinite', 'isnan', 'isinf'):
                self.cur.stubs.add('v_' + name)
                return 'v_%s(%s)' % (name, A(0))
            if name in ('__builtin_bswap32', '__builtin_bswap64'):
                return '%s(%s)' % (name, A(0))
            if name in ('move', 'forward', 'as_const'):
                return A(0)
            if name in ('quiet_NaN', 'signaling_NaN') and not args:
                self.cur.stubs.add('NaN as an unspecified real')
                return 'V_NAN'
            if name == 'infinity' and not args:
                self.cur.stubs.add('infinity as an unspecified real')
                return 'V_INFINITY'
            if name in ('min_element', 'max_element', 'accumulate') and len(args) >= 2 and full is None:
                try:
                    its = [self.tm.tname(a['type']).rstrip(' *').rstrip() for a in args[:2]]
                except ExtractError:
                    its = []
                if its == ['c_vecit', 'c_vecit']:
                    c = self.iter_container(args[0])
                    if c != self.iter_container(args[1]):
                        self.abort(n, 'std::%s over iterators of two different containers' % name)
                    if name != 'accumulate' and len(args) == 2:
                        self.cur.stubs.add('std::%s(first, last): the first position in [first, last) holding an extreme element, last if the range is empty' % name)
                        return 'STD_%s(%s, %s, %s)' % (name.upper(), c, A(0), A(1))
                    if name == 'accumulate' and len(args) in (3, 4):
                        # the fold is a recursive specification function: the unit's prelude defines STD_ACCUMULATE_<op>
                        # (obligation: the ghost running fold it names satisfies the recurrence over this very vector)
                        op = 'SUM'
                        if len(args) == 4:
                            oq = args[3]['type']['qualType']
                            if re.match(r'(const )?std::multiplies<', oq):
                                op = 'PROD'
                            elif re.match(r'(const )?std::plus<', oq):
                                op = 'SUM'
                            else:
                                self.abort(n, 'std::accumulate with a callable of type ' + oq)
                        self.cur.stubs.add('std::accumulate(first, last, init%s): the last term of ANY sequence s with s[0] = init, s[k+1] = s[k] %s v[k] (uniqueness of the fold recurrence)' % (
                            ', multiplies' if op == 'PROD' else '', '*' if op == 'PROD' else '+'))
                        return 'STD_ACCUMULATE_%s(%s, %s, %s, %s)' % (op, c, A(0), A(1), A(2))
            if name in self.lib:
                self.cur.stubs.add(self.lib[name])
                return '%s(%s)' % (self.lib[name], ', '.join(self.lib_arg(a) for a in args))
        # ---- operators on library types
        if operator:
            fam, _ = self.obj_family(args[0])
            if name == 'operator[]':
                try:
                    c0t = self.tm.tname(args[0]['type']).rstrip(' *').rstrip()
                except ExtractError:
                    c0t = None
                if c0t == 'c_opaque' or A(0).startswith('OPQ_ELEM('):
                    # element of an unmodelled container: itself unmodelled
                    return 'OPQ_ELEM(%s, %s)' % (A(0), A(1))
                if fam in ('std::array', 'array'):
                    kd = self.tm.kinds.get(self.tm.tname(args[0]['type']).rstrip(' *').rstrip())
                    return '%sa[ARR_IDX(%s, %d)]' % (self._arrow(A(0)), A(1), kd[2] if kd else 0)
                if fam in ('std::vector', 'vector', 'std::basic_string', 'std::basic_string_view'):
                    return 'VEC_AT(%s, %s)' % (A(0), A(1))
            if name == 'operator=' and fam in ('std::basic_string',) and self.tm.tname(args[0]['type']).rstrip(' *').rstrip() == 'struct vec_char':
                y = args[1]
                while y.get('kind') in ('ImplicitCastExpr', 'MaterializeTemporaryExpr', 'CXXBindTemporaryExpr') and y.get('inner'):
                    y = y['inner'][0]
                if y.get('kind') == 'StringLiteral':
                    return '%s = %s' % (A(0), self.vec_literal(y))
                return '%s = %s' % (A(0), A(1))
            if name == 'operator=' and fam in ('std::optional', 'optional'):
                rt_ = (args[1]['type'].get('desugaredQualType') or args[1]['type']['qualType'])
                if 'nullopt_t' in rt_:
                    return '(%shas = 0)' % self._arrow(A(0))
                ok = self.tm.kinds.get(self.tm.tname(args[0]['type']).rstrip(' *').rstrip())
                if ok and self.tm.tname(args[1]['type']).rstrip(' *').rstrip() == ok[1]:
                    return 'OPT_SET(%s, %s)' % (A(0), A(1))
                return '%s = %s' % (A(0), A(1))
            if name == 'operator=' :
                ct = self.tm.tname(args[0]['type'])
                if ct == 'c_opaque':
                    self.cur.dropped.append(('assignment to unmodelled (opaque) object', self._line(n)))
                    return '((void)0)'
                if ct in self.tm.kinds:
                    return '%s = %s' % (A(0), A(1))
                if ct in SCALAR_C:
                    # a proxy / value type that the unit maps onto a scalar (std::vector<bool>::reference -> _Bool)
                    return '%s = %s' % (A(0), A(1))
            if name == 'operator<<' and fam in ('std::basic_ostream', 'std::ostream', 'std::basic_ofstream', 'std::basic_fstream',
                                                'std::basic_ostringstream', 'std::basic_stringstream') and len(args) == 2:
                return self.stream_put(n, args)
            if name in ('operator*', 'operator->') and fam in ('std::unique_ptr', 'unique_ptr', 'std::shared_ptr', 'shared_ptr') and len(args) == 1:
                self.cur.stubs.add('std::unique_ptr / std::shared_ptr modelled as the pointed-to object (never null; sharing between objects is not modelled)')
                return 'UPTR_VAL(%s)' % A(0)
            if name in ('operator*', 'operator->') and fam in ('std::optional', 'optional') and len(args) == 1:
                return 'OPT_VAL(%s)' % A(0)
            if name == 'operator!' and len(args) == 1:
                try:
                    ct1 = self.tm.tname(args[0]['type']).rstrip(' *').rstrip()
                except ExtractError:
                    ct1 = 'c_opaque'
                if ct1 == 'c_opaque' and 'op:opaque:operator!' in self.lib:
                    # the unit models the stream state itself (ghost source / sink)
                    self.cur.stubs.add(self.lib['op:opaque:operator!'])
                    return '%s(%s)' % (self.lib['op:opaque:operator!'], A(0))
                if ct1 == 'c_opaque':
                    # !stream on an unmodelled stream object: the I/O operation may or may not have failed
                    self.cur.stubs.add('state of an unmodelled stream (operator!): nondeterministic')
                    return '({ (void)(%s); _Bool verif_io_failed; verif_io_failed; })' % A(0)
            if name in ('operator==', 'operator!=', 'operator<', 'operator<=', 'operator>', 'operator>=') and len(args) == 2:
                try:
                    cts = [self.tm.tname(a['type']).rstrip(' *').rstrip() for a in args]
                except ExtractError:
                    cts = []
                if cts and all(c in SCALAR_C and c != 'c_opaque' for c in cts):
                    # a library value type that the unit maps onto a scalar (e.g. std::streampos -> long)
                    return '(%s %s %s)' % (A(0), name[len('operator'):], A(1))
            key = 'op:%s:%s' % (fam, name)
            if key in self.lib:
                self.cur.stubs.add(self.lib[key])
                return '%s(%s)' % (self.lib[key], ', '.join(self.lib_arg(a) for a in args))
        # ---- member functions of library types
        if obj is not None:
            onode, o, ptr = obj
            fam, _ = self.obj_family(onode)
            try:
                oct0 = self.tm.tname(onode['type']).rstrip(' *').rstrip()
            except ExtractError:
                oct0 = None
            if o.startswith('OPQ_ELEM(') or oct0 == 'c_opaque':
                fam = '<opaque>'
            if oct0 in SCALAR_C and oct0 != 'c_opaque' and str(name).startswith('operator ') and not args and rt in SCALAR_C:
                # conversion operator of a library value type that the unit maps onto a scalar
                return 'CAST(%s, %s, %s)' % (rt, oct0.replace(' ', '_'), o)
            if fam in ('std::array', 'array'):
                if name == 'size':
                    kind = self.tm.kinds[self.tm.tname(onode['type']).rstrip(' *')]
                    return '((c_ulong)%d)' % kind[2]
                if name == 'at':
                    return '%sa[%s]' % (self._arrow(o), A(0))
            if fam in ('std::vector', 'vector', 'std::basic_string', 'std::basic_string_view'):
                if name in ('size', 'length'):
                    return 'VEC_SIZE(%s)' % o
                if name == 'empty':
                    return '(VEC_SIZE(%s) == 0)' % o
                if name == 'at':
                    self.called = True      # may throw: propagate after the statement
                    return 'VEC_AT_CHECKED(%s, %s)' % (o, A(0))
                if name == 'back':
                    return 'VEC_AT(%s, VEC_SIZE(%s) - 1)' % (o, o)
                if name == 'front':
                    return 'VEC_AT(%s, 0)' % o
                if name == 'push_back':
                    return 'VEC_PUSH(%s, %s)' % (o, A(0))
                if name == 'emplace_back':
                    vk = self.tm.kinds.get(oct0)
                    if vk and vk[0] == 'vec':
                        et = vk[1]
                        real = [a for a in args if a.get('kind') != 'CXXDefaultArgExpr']
                        if et in SCALAR_C and len(real) == 1:
                            return 'VEC_PUSH(%s, %s)' % (o, self.e(real[0]))
                        cands = [cn for cn, d in self.ctor_decls.items()
                                 if self._parent_struct(d) == et and len(self._ctor_params(cn)) == len(real)]
                        if not cands:
                            # trailing parameters with default arguments: the constructor is chosen by the C types of the
                            # arguments written at the call; the defaults are the literal initialisers of the declaration
                            def fits(cn):
                                ps = self._ctor_params(cn)
                                if len(ps) <= len(real):
                                    return False
                                for a, p_ in zip(real, ps):
                                    try:
                                        if self.tm.tname(a['type']).rstrip(' *').rstrip() != self.tm.tname(p_['type']).rstrip(' *').rstrip():
                                            return False
                                    except ExtractError:
                                        return False
                                return all([x for x in p_.get('inner', []) if x and is_expr(x)] for p_ in ps[len(real):])
                            cands = [cn for cn, d in self.ctor_decls.items() if self._parent_struct(d) == et and fits(cn)]
                        if len(cands) == 1:
                            cn = cands[0]
                            self.cur.calls.add(cn)
                            ps = self._ctor_params(cn)
                            dflt = [self.e([x for x in p_.get('inner', []) if x and is_expr(x)][-1]) for p_ in ps[len(real):]]
                            al = ', '.join(['&verif_tmp'] + [self.arg(a, p) for a, p in zip(real, ps)] + dflt)
                            return 'VEC_PUSH(%s, ({ %s verif_tmp; %s(%s); verif_tmp; }))' % (o, et, cn, al)
                        self.abort(n, 'emplace_back: %d constructors of %s with %d parameters in the extraction set' % (len(cands), et, len(real)))
                is_vec = self.tm.kinds.get(oct0 or '', ('',))[0] == 'vec'
                if is_vec and name in ('begin', 'cbegin') and not args:
                    return '((c_vecit)0)'
                if is_vec and name in ('end', 'cend') and not args:
                    return '((c_vecit)VEC_SIZE(%s))' % o
                if name == 'reserve' and len(args) == 1:
                    self.cur.stubs.add('vector::reserve(n) changes no element and no size (allocation failure is an exception)')
                    return '((void)(%s))' % A(0)
                if name == 'clear':
                    return 'VEC_CLEAR(%s)' % o
                if name in ('data', 'c_str') and not args:
                    return 'VEC_DATA(%s)' % o
                if name == 'substr' and fam in ('std::basic_string', 'std::basic_string_view') and is_vec:
                    real_args = [a for a in args if a.get('kind') != 'CXXDefaultArgExpr']
                    self.helpers.add('v_substr')
                    if len(real_args) == 1:
                        return 'v_substr(%s, %s, (unsigned long)-1)' % (o, self.e(real_args[0]))
                    if len(real_args) == 2:
                        return 'v_substr(%s, %s, %s)' % (o, self.e(real_args[0]), self.e(real_args[1]))
            if fam in ('std::optional', 'optional'):
                if name in ('has_value', 'operator bool'):
                    return '(%shas)' % self._arrow(o)
                if name == 'value':
                    return 'OPT_VALUE_CHECKED(%s)' % o
            key = '%s::%s' % (fam, name)
            if key in self.lib:
                self.cur.stubs.add(self.lib[key])
                return '%s(%s)' % (self.lib[key], ', '.join([ptr or o] + [self.lib_arg(a) for a in args]))
            try:
                oct_ = self.tm.tname(onode['type']).rstrip(' *').rstrip()
            except ExtractError:
                oct_ = None
            if o.startswith('OPQ_ELEM('):
                oct_ = 'c_opaque'
            if oct_ in ('c_opaque', None) and name == 'write' and len(args) == 2:
                # ostream::write(p, n): the bytes go to the unit's ghost sink; what p points at decides the macro
                x = args[0]
                while x.get('kind') in ('ImplicitCastExpr', 'CXXReinterpretCastExpr', 'CStyleCastExpr', 'ParenExpr', 'CXXStaticCastExpr') and x.get('inner'):
                    x = [y for y in x['inner'] if y][0]
                nb = self.e(args[1])
                self.cur.stubs.add('ostream::write(p, n) appends n bytes to the file: ghost sink macros SINK_WRITE_* of the unit prelude')
                if x.get('kind') == 'UnaryOperator' and x.get('opcode') == '&':
                    tgt = [y for y in x['inner'] if y][0]
                    try:
                        tct = self.tm.tname(tgt['type'])
                    except ExtractError:
                        tct = None
                    if tct in SCALAR_C and tct != 'c_opaque':
                        return 'SINK_WRITE_SCALAR(%s, %s)' % (self.e(tgt), nb)
                if x.get('kind') == 'CXXMemberCallExpr' and x['inner'][0].get('name') in ('data', 'c_str'):
                    vobj = x['inner'][0]['inner'][0]
                    try:
                        vct = self.tm.tname(vobj['type']).rstrip(' *').rstrip()
                    except ExtractError:
                        vct = None
                    vk = self.tm.kinds.get(vct)
                    if vk and vk[0] == 'vec':
                        cpp_elem = (vobj['type'].get('desugaredQualType') or vobj['type']['qualType'])
                        mm = re.search(r'vector<\s*([\w ]+?)\s*[,>]', cpp_elem)
                        es = {'int': 4, 'unsigned int': 4, 'float': 4, 'double': 8, 'char': 1, 'long': 8, 'unsigned long': 8}.get(mm.group(1).strip() if mm else '', None)
                        if es:
                            v = self.e(vobj)
                            return 'SINK_WRITE_VEC(%s, %s, %d)' % ('(*%s)' % v if x['inner'][0].get('isArrow') else v, nb, es)
                return 'SINK_WRITE_RAW(%s)' % nb
            if oct_ in ('c_opaque', None) and name == 'read' and len(args) == 2:
                x = args[0]
                while x.get('kind') in ('ImplicitCastExpr', 'CXXReinterpretCastExpr', 'CStyleCastExpr', 'ParenExpr', 'CXXStaticCastExpr') and x.get('inner'):
                    x = [y for y in x['inner'] if y][0]
                if x.get('kind') == 'UnaryOperator' and x.get('opcode') == '&':
                    tgt = [y for y in x['inner'] if y][0]
                    try:
                        tct = self.tm.tname(tgt['type'])
                    except ExtractError:
                        tct = None
                    if tct in SCALAR_C and tct != 'c_opaque':
                        self.cur.stubs.add('istream::read(&x, n): x becomes arbitrary file content, or stays indeterminate on a short read (ghost source macros SRC_READ_* )')
                        return 'SRC_READ_SCALAR(%s, %s)' % (self.e(tgt), self.e(args[1]))
                if x.get('kind') == 'CXXMemberCallExpr' and x['inner'][0].get('name') == 'data':
                    vobj = x['inner'][0]['inner'][0]
                    try:
                        vct = self.tm.tname(vobj['type']).rstrip(' *').rstrip()
                    except ExtractError:
                        vct = None
                    if self.tm.kinds.get(vct, ('',))[0] == 'vec':
                        self.cur.stubs.add('istream::read(buf, n): the first n bytes of buf become arbitrary file content (or stay indeterminate on a short read)')
                        v = self.e(vobj)
                        return 'SRC_READ_VEC(%s, %s)' % ('(*%s)' % v if x['inner'][0].get('isArrow') else v, self.e(args[1]))
                a0 = self.e(args[0])
                if a0.startswith('VEC_DATA('):
                    self.cur.stubs.add('istream::read(buf, n): the first n bytes of buf become arbitrary file content (or stay indeterminate on a short read)')
                    v = a0[9:-1]
                    return 'SRC_READ_VEC(%s, %s)' % (v, self.e(args[1]))
            if oct_ in ('c_opaque', None) and name in ('push_back', 'emplace_back', 'reserve', 'clear', 'resize', 'insert', 'seekg', 'seekp', 'close', 'open'):
                self.cur.dropped.append(('effect of %s() on an unmodelled (opaque) object; its arguments are still evaluated' % name, self._line(n)))
                return '((void)0%s)' % ''.join(', (void)(%s)' % x for x in (self.e_or_pure_skip(a) for a in args if a.get('kind') != 'CXXDefaultArgExpr') if x)
            # opaque pure getter of a class outside the extraction set
            q = (full or {}).get('_qual', fam + '::' + str(name))
            if any(rx.search(q) for rx in self.opaque_ok):
                if oct_ in ('c_opaque', None) and not o.startswith('OPQ_ELEM(') and self._lvalue_text(o):
                    # an unmodelled member object: its (havocable) placeholder value is its identity -- CBMC cannot
                    # form the address of a member that follows unbounded arrays
                    return self.opaque_call(n, q, full, 'OPQ_ID(%s)' % o, args)
                return self.opaque_call(n, q, full, ptr or o, args)
        q = (full or {}).get('_qual', name)
        for rx, macro in self.lib_rx:
            mrx = rx.search(q)
            if mrx:
                if '\\' in macro:
                    # macro name built from the call: \T<k> is the C type of the k-th argument (1-based), \<k> the k-th
                    # group of the match, both in identifier form
                    def argtype(g):
                        k = int(g.group(1)) - 1
                        real = [a for a in args if a.get('kind') != 'CXXDefaultArgExpr']
                        if k >= len(real):
                            return 'none'
                        try:
                            return ident(self.tm.tname(real[k]['type']).rstrip(' *').rstrip())
                        except ExtractError:
                            return 'opaque'
                    macro = re.sub(r'\\T(\d)', argtype, macro)
                    macro = macro.replace('\\N', str(len([a for a in args if a.get('kind') != 'CXXDefaultArgExpr'])))
                    macro = re.sub(r'\\(\d)', lambda g: ident(mrx.group(int(g.group(1))) or ''), macro)
                al = []
                if obj is not None:
                    # the object is passed as an lvalue EXPRESSION (macros have value syntax)
                    al.append('(*%s)' % obj[1] if (obj[2] is not None and obj[2] == obj[1] and not obj[1].startswith(('&', 'OPT_VAL(', 'UPTR_VAL('))) else obj[1])
                al += [self.lit_or_expr(a) for a in args if a.get('kind') != 'CXXDefaultArgExpr']
                self.cur.stubs.add(macro)
                return '%s(%s)' % (macro, ', '.join(al))
        if any(rx.search(q) for rx in self.opaque_ok):
            return self.opaque_call(n, q, full, None, args)
        self.abort(n, 'call of %s' % q)

    def e_or_pure_skip(self, a):
        """argument of a call whose effect is dropped: translated for its side effects; an argument that cannot be
        translated is skipped only if it is side-effect free (no call, assignment, increment)"""
        try:
            return self.e(a)
        except ExtractError:
            for y in walk(a):
                k = y.get('kind')
                if k in ('CallExpr', 'CXXMemberCallExpr', 'CXXOperatorCallExpr', 'CompoundAssignOperator', 'CXXConstructExpr') or \
                        (k == 'BinaryOperator' and y.get('opcode') == '=') or (k == 'UnaryOperator' and y.get('opcode') in ('++', '--')):
                    raise
            return None

    def lit_or_expr(self, a):
        """argument of a library macro: a std::string built from a literal is passed as its literal id"""
        x = a
        while x.get('kind') in ('MaterializeTemporaryExpr', 'CXXBindTemporaryExpr', 'ImplicitCastExpr', 'ExprWithCleanups',
                                'CXXConstructExpr', 'CXXFunctionalCastExpr') and x.get('inner'):
            ch = [y for y in x['inner'] if y and y.get('kind') != 'CXXDefaultArgExpr']
            if len(ch) != 1:
                break
            x = ch[0]
        if x.get('kind') == 'StringLiteral':
            return self.e(x)
        return self.e(a)

    def vec_literal(self, y):
        """a string literal as a vec_char value"""
        import ast as _ast
        v = y.get('value', '""')
        try:
            txt = _ast.literal_eval(v)
        except Exception:
            self.abort(y, 'string literal spelling')
        self.tmpn = getattr(self, 'tmpn', 0) + 1
        t = 'verif_l%d' % self.tmpn
        self.tm.vec('char')
        body = ' '.join('%s.data[%d] = %d;' % (t, i, ord(c)) for i, c in enumerate(txt))
        return '({ struct vec_char %s; %s.size = %d; %s %s; })' % (t, t, len(txt), body, t)

    def stream_put(self, n, args):
        """os << x : one token appended to the ghost sink; the kind of token is decided by the static type of x"""
        os_txt = self.e(args[0])
        x = args[1]
        y = x
        while y.get('kind') in ('ImplicitCastExpr', 'ParenExpr', 'MaterializeTemporaryExpr', 'ExprWithCleanups') and y.get('inner'):
            y = y['inner'][0]
        self.cur.stubs.add('ghost output sink (stream << x)')
        if y.get('kind') == 'DeclRefExpr' and y['referencedDecl'].get('kind') == 'FunctionDecl':
            nm = y['referencedDecl'].get('name')
            if nm in ('endl', 'flush', 'ends'):
                return 'SINK_PUT_%s(%s)' % (nm.upper(), os_txt)
            self.abort(n, 'stream manipulator ' + str(nm))
        if y.get('kind') == 'StringLiteral':
            return 'SINK_PUT_STR(%s, %s)' % (os_txt, self.e(y))
        ct = self.tm.tname(x['type']).rstrip(' *').rstrip()
        val = self.e(x)
        if ct in ('real_t', 'realf_t'):
            return 'SINK_PUT_REAL(%s, %s)' % (os_txt, val)
        if ct in ('char', 'signed char', 'unsigned char'):
            return 'SINK_PUT_CHAR(%s, %s)' % (os_txt, val)
        if ct == 'c_opaque':
            return 'SINK_PUT_TEXT(%s, %s)' % (os_txt, val)
        if ct in SCALAR_C:
            return 'SINK_PUT_NUM(%s, %s)' % (os_txt, val)
        self.abort(n, 'stream output of a value of type ' + ct)

    def lib_arg(self, a):
        x = self.e(a)
        ct = self.tm.tname(a['type'])
        if ct in self.tm.kinds and self.tm.kinds[ct][0] == 'vec' and a.get('valueCategory') == 'lvalue':
            return self.addr(a, x)
        return x

    @staticmethod
    def qual_name(q):
        """'double Opm::X::get<double>(unsigned long) const' -> 'Opm::X::get<double>'"""
        from .astdb import _top_level_paren
        p = _top_level_paren(q)
        head = q[:p] if p >= 0 else q
        depth, cut = 0, 0
        for i, ch in enumerate(head):
            if ch == '<':
                depth += 1
            elif ch == '>':
                depth -= 1
            elif ch == ' ' and depth == 0:
                cut = i + 1
        return head[cut:]

    def opaque_call(self, n, q, full, selfptr, args):
        """memoised uninterpreted function: equal arguments give equal results, nothing else is known"""
        rt = self.ty(n)
        if rt not in SCALAR_C:
            self.abort(n, 'opaque getter %s returning non-scalar %s' % (q, rt))
        cn = 'OPQ_' + ident(self.qual_name(q))
        if q.strip() == 'operator()':
            cn = 'OPQ_call_' + ident(rt)      # a callable object (std::function member): one pure function per result type, keyed by the object
        ats = []
        if selfptr is not None:
            ats.append('const void *')
        al = [selfptr] if selfptr is not None else []
        for a in args:
            at = self.tm.tname(a['type'])
            if at in SCALAR_C:
                ats.append(at)
                al.append(self.e(a))
            elif a.get('valueCategory') == 'lvalue':
                # an object passed by reference: its identity (address) is the argument of the pure function
                ats.append('const void *')
                al.append(self.addr(a, self.e(a)))
            else:
                self.abort(n, 'opaque getter %s with non-scalar temporary argument' % q)
        self.opaque_decls[cn] = (rt, ats, q)
        self.cur.stubs.add(cn)
        return '%s(%s)' % (cn, ', '.join(al))

    # ================================================================== statements
    def out(self, s):
        self.lines.append('    ' * self.ind + s)

    def ghost_get(self, key):
        g = self.ghosts.get(key)
        if g is not None:
            self.ghost_used.add(key[1])
        return g

    def propagate(self):
        """an exception thrown by a callee leaves this function too (no try/catch is ever translated)"""
        if self.called:
            self.called = False
            if self.cur.ret == 'void':
                self.out('if (verif_thrown) return;')
            else:
                self.out('if (verif_thrown) { %s verif_undef; return verif_undef; }' % self.cur.ret)

    def droppable_strings(self, body):
        """ids of std::string locals that flow only into exception/log text"""
        sinks = []
        for x in walk(body):
            if x.get('kind') == 'CXXThrowExpr':
                sinks.append(x)
            elif x.get('kind') in ('CallExpr', 'CXXMemberCallExpr'):
                ref, _ = self.callee_decl(x['inner'][0]) if x.get('inner') else (None, None)
                d = self.full_decl(ref) if ref else None
                q = (d or {}).get('_qual', '') if d else ''
                if ref and (ref.get('name') in ('error', 'warning', 'info', 'debug', 'note', 'problem', 'bug')) \
                        and ('OpmLog' in (ref.get('type', {}).get('qualType', '') + q) or d is None):
                    # OpmLog::xxx(const std::string&) - static member of a class outside the dump
                    if self._is_log_call(x):
                        sinks.append(x)
        # statements that only build a string:  msg += ... ;  msg = ... ;  os << ...   (decided per candidate below)
        builders = []
        for x in walk(body):
            if x.get('kind') == 'CXXOperatorCallExpr' and x.get('_parent', {}).get('kind') in ('CompoundStmt', 'ExprWithCleanups', 'IfStmt', 'ForStmt'):
                ref, _ = self.callee_decl(x['inner'][0])
                if ref and ref.get('name') in ('operator+=', 'operator=', 'operator<<'):
                    lhs = x['inner'][1]
                    while lhs.get('kind') in ('ImplicitCastExpr', 'ParenExpr') and lhs.get('inner'):
                        lhs = lhs['inner'][0]
                    if lhs.get('kind') == 'DeclRefExpr':
                        builders.append((lhs['referencedDecl']['id'], x))
        sink_ids = set()
        for s in sinks:
            for y in walk(s):
                sink_ids.add(id(y))
        cands = {}
        for x in walk(body):
            if x.get('kind') == 'VarDecl':
                t = x['type'].get('desugaredQualType') or x['type']['qualType']
                if strip_cv(t).startswith(('std::basic_string<', 'std::string', 'std::basic_ostringstream', 'std::ostringstream')) \
                        or strip_cv(t.replace('const ', '')) in ('char *', 'char*'):
                    cands[x['id']] = x
        uses = {i: [] for i in cands}
        for x in walk(body):
            if x.get('kind') == 'DeclRefExpr' and x['referencedDecl']['id'] in cands:
                uses[x['referencedDecl']['id']].append(x)
        for vid, x in builders:
            if vid in cands:
                for y in walk(x):
                    sink_ids.add(id(y))
        self.builder_ids = {id(x) for vid, x in builders if vid in cands}
        self.builder_var = {id(x): vid for vid, x in builders if vid in cands}
        dropped = set(cands)
        changed = True
        while changed:
            changed = False
            for vid in list(dropped):
                for u in uses[vid]:
                    if id(u) in sink_ids:
                        continue
                    # used inside the initialiser of another dropped string?
                    p = u
                    ok = False
                    while p is not None:
                        if p.get('kind') == 'VarDecl' and p['id'] in dropped and p['id'] != vid:
                            ok = True
                            break
                        p = p.get('_parent')
                    if not ok:
                        dropped.discard(vid)
                        changed = True
                        break
        self.builder_ids = {i for i in self.builder_ids if self.builder_var[i] in dropped}
        return dropped, sinks

    def only_message(self, n):
        """statement consists of message-building statements only"""
        k = n.get('kind')
        x = n
        while x.get('kind') == 'ExprWithCleanups' and x.get('inner'):
            x = x['inner'][0]
        if id(x) in self.builder_ids or id(n) in self.builder_ids:
            return True
        if k == 'CompoundStmt':
            return all(self.only_message(y) for y in n.get('inner', []) if y)
        if k == 'IfStmt':
            inner = [y for y in n.get('inner', []) if y]
            return all(self.only_message(y) for y in inner[1:]) and not any(
                z.get('kind') in ('CallExpr', 'CXXMemberCallExpr', 'CXXOperatorCallExpr') for z in walk(inner[0]))
        if k == 'NullStmt':
            return True
        return False

    def _is_log_call(self, x):
        inner = x.get('inner', [])
        for y in walk(inner[0]):
            if y.get('kind') == 'DeclRefExpr':
                t = y.get('type', {}).get('qualType', '')
                return y['referencedDecl'].get('kind') == 'CXXMethodDecl' and 'std::string' in t
        return False

    def s(self, n):
        k = n['kind']
        inner = [x for x in n.get('inner', []) if x]
        saved, self.pre = self.pre, []
        saved_post, self.post = self.post, []
        at = len(self.lines)
        m = getattr(self, 's_' + k, None)
        if m is not None:
            m(n, inner)
        elif k.endswith(('Expr', 'Operator', 'Literal', 'ExprWithCleanups')) or hasattr(self, 'e_' + k):
            self.s_expr(n)
        else:
            self.abort(n, 'statement')
        if self.pre:
            ind = re.match(r' *', self.lines[at]).group(0) if at < len(self.lines) else '    ' * self.ind
            self.lines[at:at] = [ind + p for p in self.pre]
        if self.post:
            if k in ('ReturnStmt', 'IfStmt', 'ForStmt', 'WhileStmt', 'DoStmt', 'SwitchStmt', 'CXXForRangeStmt'):
                self.abort(n, 'vector element passed by reference from a control-flow statement')
            ind = '    ' * self.ind
            self.lines += [ind + p for p in self.post]
        self.pre = saved
        self.post = saved_post

    def s_expr(self, n):
        x0 = n
        while x0.get('kind') == 'ExprWithCleanups' and x0.get('inner'):
            x0 = x0['inner'][0]
        if id(x0) in self.builder_ids:
            self.cur.dropped.append(('message text', self._line(n)))
            return
        if any((id(n) == id(s) or id(x0) == id(s)) and s.get('kind') != 'CXXThrowExpr' for s in self.sinks):
            self.cur.dropped.append(('log', self._line(n)))
            return
        thr = [x for x in walk(n) if x.get('kind') == 'CXXThrowExpr']
        if thr:
            if n['kind'] in ('ExprWithCleanups', 'CXXThrowExpr'):
                t = thr[0]
                sub = [y for y in t.get('inner', []) if y]
                et = (sub[0]['type'].get('qualType') if sub else 'rethrow')
                self.cur.dropped.append(('throw-message', self._line(n)))
                self.out('VERIF_THROW("%s"); /* %s */' % (et, self._loc(n)))
                self._return_default()
                return
            self.abort(n, 'throw inside expression')
        c0 = n
        while c0.get('kind') in ('ExprWithCleanups',) and c0.get('inner'):
            c0 = c0['inner'][0]
        if c0.get('kind') == 'CXXOperatorCallExpr' and len(c0.get('inner', [])) == 3 and \
                (self.callee_decl(c0['inner'][0])[0] or {}).get('name') == 'operator=':
            rhs = c0['inner'][2]
            while rhs.get('kind') in ('ImplicitCastExpr', 'MaterializeTemporaryExpr', 'ExprWithCleanups', 'CXXBindTemporaryExpr', 'CXXConstructExpr') and rhs.get('inner'):
                rhs = [y for y in rhs['inner'] if y][0]
            if rhs.get('kind') == 'CallExpr':
                rref, _ = self.callee_decl(rhs['inner'][0])
                if rref and rref.get('name') == 'transform' and self.full_decl(rref) is None:
                    # it = std::transform(first, last, it, f)
                    return self.std_transform_iter(rhs, assign_to=self.e(c0['inner'][1]))
        if c0.get('kind') == 'CXXOperatorCallExpr':
            # std::cerr << ... ; console diagnostics: dropped (logged) when the operands have no side effects
            root = c0
            while root.get('kind') == 'CXXOperatorCallExpr' and len(root.get('inner', [])) == 3 and \
                    (self.callee_decl(root['inner'][0])[0] or {}).get('name') == 'operator<<':
                root = root['inner'][1]
            while root.get('kind') in ('ImplicitCastExpr', 'ParenExpr') and root.get('inner'):
                root = root['inner'][0]
            if root.get('kind') == 'DeclRefExpr' and root['referencedDecl'].get('kind') == 'VarDecl' and \
                    root['referencedDecl'].get('name') in ('cerr', 'cout', 'clog') and root is not c0:
                if not any(y.get('kind') in ('CallExpr', 'CXXMemberCallExpr', 'CompoundAssignOperator') or
                           (y.get('kind') == 'UnaryOperator' and y.get('opcode') in ('++', '--')) or
                           (y.get('kind') == 'BinaryOperator' and y.get('opcode') == '=') for y in walk(c0)):
                    self.cur.dropped.append(('console output (std::%s << ...)' % root['referencedDecl']['name'], self._line(n)))
                    return
        if c0.get('kind') == 'CallExpr':
            ref, _ = self.callee_decl(c0['inner'][0])
            if ref and ref.get('name') in ('exit', '_Exit', 'abort', 'quick_exit') and self.full_decl(ref) is None:
                # the process ends without a result or an exception: an obligation that this is never reached
                for a in c0['inner'][1:]:
                    self.e_or_pure_skip(a)
                self.out('VERIF_OBL(0, "%s/std::%s is never reached (line %s)");' % (self.cur.cname, ref['name'], self._line(n)))
                self.out('__CPROVER_assume(0);')
                return
            if ref and ref.get('name') == 'transform' and self.full_decl(ref) is None:
                if self.transform_is_simple(c0):
                    return self.std_transform(c0)
                return self.std_transform_iter(c0)
            if ref and ref.get('name') == 'iota' and self.full_decl(ref) is None:
                return self.std_iota(c0)
        if c0.get('kind') == 'CXXMemberCallExpr' and c0['inner'][0].get('kind') == 'MemberExpr' and \
                c0['inner'][0].get('name') in ('assign', 'resize'):
            me = c0['inner'][0]
            fam, _ = self.obj_family(me['inner'][0])
            try:
                oct0 = self.tm.tname(me['inner'][0]['type']).rstrip(' *').rstrip()
            except ExtractError:
                oct0 = 'c_opaque'
            margs = [a for a in c0['inner'][1:] if a and a.get('kind') != 'CXXDefaultArgExpr']
            if fam in ('std::vector', 'vector') and oct0 != 'c_opaque' and self.tm.kinds.get(oct0, ('',))[0] == 'vec':
                o = self.e(me['inner'][0])
                if me.get('isArrow'):
                    o = '(*%s)' % o
                if me['name'] == 'assign' and len(margs) == 2 and not margs[0]['type']['qualType'].rstrip().endswith(('*', 'iterator')) \
                        and 'iterator' not in margs[0]['type']['qualType']:
                    return self.vec_update(o, self.e(margs[0]), self.e(margs[1]), None, 'vector::assign(n, x): n copies of x')
                if me['name'] == 'resize' and len(margs) == 2:
                    return self.vec_update(o, self.e(margs[0]), self.e(margs[1]), 'keep', 'vector::resize(n, v): the first min(n, size) elements are kept, new elements are copies of v')
                if me['name'] == 'resize' and len(margs) == 1:
                    ect = self.tm.kinds[oct0][1]
                    return self.vec_update(o, self.e(margs[0]), '0' if ect in SCALAR_C else None, 'keep',
                                           'vector::resize(n): the first min(n, size) elements are kept, new elements are value-initialised', elem_ct=ect)
        af = self._assert_cond(n)
        if af is not None:
            self.out('VERIF_ASSERT(%s, "%s/assert line %s");' % (self.e(af), self.cur.cname, self._line(n)))
            return
        if n['kind'] == 'CXXOperatorCallExpr' or n['kind'] == 'CXXMemberCallExpr' or n['kind'] == 'CallExpr':
            if any(id(n) == id(s) for s in self.sinks):
                return
        self.out(self.e(n) + ';')
        self.propagate()

    def _assert_cond(self, n):
        # ((cond) ? (void)0 : __assert_fail(...))
        x = n
        while x.get('kind') in ('ParenExpr', 'ExprWithCleanups'):
            x = x['inner'][0]
        if x.get('kind') == 'ConditionalOperator':
            br = x['inner'][2]
            for y in walk(br):
                if y.get('kind') == 'DeclRefExpr' and y['referencedDecl'].get('name') == '__assert_fail':
                    c = x['inner'][0]
                    return c
        return None

    def _return_default(self):
        if self.cur.ret == 'void':
            self.out('return;')
        else:
            self.out('{ %s verif_undef; return verif_undef; }' % self.cur.ret)

    def _line(self, n):
        b = n.get('range', {}).get('begin', {})
        return b.get('_line')

    def _loc(self, n):
        b = n.get('range', {}).get('begin', {})
        f = b.get('_file') or ''
        return '%s:%s' % (f.replace('/repo/', ''), b.get('_line'))

    def s_CompoundStmt(self, n, inner):
        self.out('{')
        self.ind += 1
        for x in inner:
            self.s(x)
        self.ind -= 1
        self.out('}')

    def s_NullStmt(self, n, inner):
        self.out(';')

    def s_DeclStmt(self, n, inner):
        for v in inner:
            if v['kind'] in ('TypeAliasDecl', 'TypedefDecl', 'UsingDecl', 'StaticAssertDecl', 'UsingDirectiveDecl'):
                continue
            if v['kind'] == 'DecompositionDecl':
                sts = self.decomposition(v)
                for st in self.pre:
                    self.out(st)
                self.pre = []
                for j, st in enumerate(sts):
                    self.out(st)
                    if j == 0:
                        self.propagate()
                continue
            if v['kind'] != 'VarDecl':
                self.abort(v, 'declaration')
            if v['id'] in self.drop_ids:
                self.cur.dropped.append(('string-local ' + v['name'], self._line(v)))
                continue
            self.var_decl(v)

    def decomposition(self, v):
        """structured binding `auto [a, b, ...] = e;` / `const auto& [a, b, ...] = e;` of a pair / tuple / array / record
        value: binding k names component k of (a copy of, or for references the object itself) e.  Returns the
        statements to emit."""
        init = [x for x in v.get('inner', []) if x and is_expr(x)]
        binds = [x for x in v.get('inner', []) if x and x.get('kind') == 'BindingDecl']
        if len(init) != 1 or not binds:
            self.abort(v, 'structured binding shape')
        ct = self.tm.tname(init[0]['type']).rstrip(' *').rstrip()
        k = self.tm.kinds.get(ct)
        if not k or k[0] not in ('tup', 'arr', 'rec'):
            self.abort(v, 'structured binding of a value of type ' + ct)
        x = self.e(init[0])
        out = []
        is_ref = v['type']['qualType'].rstrip().endswith('&')
        if not (is_ref and (self._lvalue_text(x) or x.startswith('VEC_AT('))):
            self.tmpn = getattr(self, 'tmpn', 0) + 1
            nm = 'verif_sb%d' % self.tmpn
            out.append('%s %s = %s;' % (ct, nm, x))
            x = nm
        n_comp = len(k[1]) if k[0] in ('tup', 'rec') else k[2]
        if len(binds) != n_comp:
            self.abort(v, 'structured binding of %d names to %d components' % (len(binds), n_comp))
        copied = bool(out)
        for j, b in enumerate(binds):
            comp = '_%d' % j if k[0] == 'tup' else ('a[%d]' % j if k[0] == 'arr' else k[1][j][1])
            cty = k[1][j] if k[0] == 'tup' else (k[1] if k[0] == 'arr' else k[1][j][0])
            if copied:
                # bindings of a COPY: each component becomes a local of its own (CBMC cannot form the address of a
                # member of a record that holds unbounded arrays, and nothing else can reach the copy)
                nm = self.fresh(b['name'])
                self.locals[b['id']] = nm
                self.var_types[nm] = cty
                out.append('%s %s = %s.%s;' % (cty, nm, x, comp))
            else:
                self.alias[b['id']] = '%s.%s' % (x, comp)
        return out

    def lambda_of(self, x):
        while x is not None and x.get('kind') in ('ExprWithCleanups', 'CXXConstructExpr', 'MaterializeTemporaryExpr',
                                                   'ImplicitCastExpr', 'CXXBindTemporaryExpr') and x.get('inner'):
            ch = [y for y in x['inner'] if y]
            if len(ch) != 1:
                return None
            x = ch[0]
        return x if x is not None and x.get('kind') == 'LambdaExpr' else None

    def var_decl(self, v):
        init0 = [x for x in v.get('inner', []) if x and is_expr(x)]
        lam = self.lambda_of(init0[-1]) if init0 else None
        if lam is not None:
            # a local lambda: inlined at its call sites (captures by reference are the enclosing variables themselves)
            call = None
            for y in walk(lam):
                if y.get('kind') == 'CXXMethodDecl' and y.get('name') == 'operator()':
                    call = y
                    break
            if call is None:
                self.abort(v, 'lambda without call operator')
            for cap in lam.get('inner', []):
                pass
            used = {y['referencedDecl']['id'] for y in walk(call) if y.get('kind') == 'DeclRefExpr'}
            for y in walk(self.cur_body):
                if y.get('kind') in ('BinaryOperator', 'CompoundAssignOperator') and (y.get('opcode') == '=' or y['kind'] == 'CompoundAssignOperator'):
                    tgt = y['inner'][0]
                    if tgt.get('kind') == 'DeclRefExpr' and tgt['referencedDecl']['id'] in used and tgt['referencedDecl']['id'] in self.locals:
                        self.abort(v, 'lambda captures %s, which is assigned in the enclosing function' % tgt['referencedDecl'].get('name'))
            self.lambdas[v['id']] = call
            self.cur.dropped.append(('lambda %s inlined at its call sites' % v['name'], self._line(v)))
            return
        qt = v['type']['qualType']
        name = self.fresh(v['name'])
        init = [x for x in v.get('inner', []) if x and is_expr(x)]
        if qt.rstrip().endswith('&'):
            if not init:
                self.abort(v, 'reference without initialiser')
            ct = self.tm.tname(v['type'])
            base = ct.rstrip(' *').rstrip()
            if self.binds_temporary(init[-1]):
                # const T& x = <prvalue>: lifetime-extended temporary == a local value
                self.locals[v['id']] = name
                self.out('%s %s = %s;' % (base, name, self.e(init[-1])))
                self.propagate()
                return
            if base == 'c_opaque':
                # a reference to an unmodelled object: the placeholder value is evaluated once (the object is never read)
                self.locals[v['id']] = name
                self.out('%s %s = %s;' % (base, name, self.e(init[-1])))
                self.propagate()
                return
            if True:
                # reference to an lvalue: translated by substitution of the referent expression (CBMC supports
                # neither pointers into arrays of mathematical reals nor pointers to members that follow an
                # unbounded array); the referent must be a stable access path
                self.check_stable(init[-1], v)
                self.alias[v['id']] = '(' + self.e(init[-1]) + ')'
                self.cur.dropped.append(('reference-local %s substituted by its referent' % v['name'], self._line(v)))
                return
            tgt = self.e(init[-1])
            self.locals[v['id']] = name
            self.ref_locals.add(v['id'])
            self.out('%s %s = %s;' % (ct, name, self.addr(init[-1], tgt)))
            return
        ct = self.ty(v)
        self.var_types[name] = ct
        if ct == 'c_vecit':
            if not init:
                self.abort(v, 'iterator without initialiser')
            self.iter_base[v['id']] = self.iter_container(init[-1])
        if v['id'] in self.exported:
            # local of the sliced region that the slice hands back: assignment to the out-parameter
            en = self.exported[v['id']]
            self.locals[v['id']] = en
            self.ref_locals.add(v['id'])
            if init:
                self.out('(*%s) = %s;' % (en, self.e(init[-1])))
                self.propagate()
            return
        self.locals[v['id']] = name
        if v.get('storageClass') == 'static' and 'const' not in qt:
            self.abort(v, 'mutable static local')
        if not init:
            if ct in self.tm.kinds and self.tm.kinds[ct][0] == 'vec':
                self.out('%s %s; VEC_INIT_EMPTY(%s);' % (ct, name, name))
            else:
                self.out('%s %s;' % (ct, name))
            return
        x = init[-1]
        if x.get('kind') in ('CXXConstructExpr',) and not [a for a in x.get('inner', []) if a and a.get('kind') != 'CXXDefaultArgExpr']:
            kind = self.tm.kinds.get(ct)
            if kind and kind[0] == 'vec':
                self.out('%s %s; VEC_INIT_EMPTY(%s);' % (ct, name, name))
                return
            if kind and kind[0] in ('arr',):
                self.out('%s %s;' % (ct, name))      # default-initialised std::array of scalars: indeterminate
                return
        self.out('%s %s = %s;' % (ct, name, self.e(x)))
        self.propagate()

    @staticmethod
    def binds_temporary(x):
        while x.get('kind') in ('ExprWithCleanups', 'ImplicitCastExpr', 'ParenExpr') and x.get('inner'):
            if x['kind'] == 'ImplicitCastExpr' and x.get('castKind') not in ('NoOp', 'DerivedToBase'):
                break
            x = x['inner'][0]
        return x.get('kind') == 'MaterializeTemporaryExpr'

    def check_stable(self, x, v):
        """referent expression of a substituted reference: member/subscript chains over parameters, this,
        literals and calls of const member functions only"""
        for y in walk(x):
            k = y.get('kind')
            if k in ('MemberExpr', 'DeclRefExpr', 'CXXThisExpr', 'IntegerLiteral', 'ImplicitCastExpr', 'ParenExpr',
                     'ArraySubscriptExpr', 'CXXOperatorCallExpr', 'CXXMemberCallExpr', 'CallExpr', 'BinaryOperator',
                     'ExprWithCleanups', 'MaterializeTemporaryExpr', 'UnaryOperator'):
                if k == 'BinaryOperator' and y.get('opcode') not in ('+', '-', '*'):
                    self.abort(v, 'reference to an expression with operator ' + str(y.get('opcode')))
                if k == 'UnaryOperator' and y.get('opcode') not in ('-', '*'):
                    self.abort(v, 'reference to an expression with operator ' + str(y.get('opcode')))
                if k == 'CXXMemberCallExpr':
                    me = y['inner'][0]
                    ft = me.get('type', {}).get('qualType', '')
                    # bound member function type is '<bound member function type>'; constness from the decl
                    d = self.db.byid.get(me.get('referencedMemberDecl'))
                    if d is not None and not d['type']['qualType'].rstrip().endswith('const') \
                            and not d['type']['qualType'].rstrip().endswith('const noexcept'):
                        self.abort(v, 'reference through a non-const member call')
                continue
            self.abort(v, 'reference to an expression containing ' + str(k))

    def fresh(self, name):
        base = name
        i = 1
        while name in self.used_names:
            i += 1
            name = '%s_%d' % (base, i)
        self.used_names.add(name)
        return name

    def s_ReturnStmt(self, n, inner):
        if not inner:
            self.out('return;')
            return
        x = self.e(inner[0])
        if self.called and self.cur.ret != 'void':
            self.out('{ %s verif_rv = %s;' % (self.cur.ret, self.addr(inner[0], x) if self.ret_is_ref else x))
            self.propagate()
            self.out('return verif_rv; }')
            return
        if self.ret_is_ref:
            self.out('return %s;' % self.addr(inner[0], x))
        else:
            self.out('return %s;' % x)

    def s_IfStmt(self, n, inner):
        idx = 0
        opened = False
        if n.get('hasInit'):
            self.out('{')
            self.ind += 1
            opened = True
            self.s(inner[0])
            idx = 1
        if n.get('hasVar'):
            self.abort(n, 'if with condition variable')
        if n.get('isConstexpr') and inner[idx].get('kind') == 'ConstantExpr' and inner[idx].get('value') in ('true', 'false'):
            # if constexpr in an instantiation: clang has evaluated the condition and discarded the other branch
            taken = inner[idx + 1] if inner[idx]['value'] == 'true' else (inner[idx + 2] if len(inner) > idx + 2 else None)
            self.out('/* if constexpr: %s */' % inner[idx]['value'])
            if taken is not None and taken.get('kind') != 'NullStmt':
                self.block(taken)
            if opened:
                self.ind -= 1
                self.out('}')
            return
        c = self.e(inner[idx])
        if self.called:
            self.out('{ _Bool verif_c = %s;' % c)
            self.propagate()
            self.out('if (verif_c)')
            opened2 = True
        else:
            self.out('if (%s)' % c)
            opened2 = False
        self.block(inner[idx + 1])
        if len(inner) > idx + 2:
            self.out('else')
            self.block(inner[idx + 2])
        if opened2:
            self.out('}')
        if opened:
            self.ind -= 1
            self.out('}')

    def block(self, n):
        if n['kind'] == 'CompoundStmt':
            self.s(n)
        else:
            self.out('{')
            self.ind += 1
            self.s(n)
            self.ind -= 1
            self.out('}')

    def s_DoStmt(self, n, inner):
        body, cond = inner[0], inner[1]
        if cond.get('kind') == 'CXXBoolLiteralExpr' and not cond['value']:
            # macro idiom do { ... } while (false)
            self.brk.append(('do0', None))
            self.out('do')
            self.block(body)
            self.out('while (0);')
            self.brk.pop()
            return
        k = self.new_loop('do', n)
        if (self.cur.cname, k) in self.loopc:
            self.abort(n, 'loop contract on do-while (not supported)')
        self.brk.append(('loop', None))
        self.out('do')
        self.block(body)
        self.out('while (%s);' % self.e(cond))
        self.brk.pop()

    def new_loop(self, kind, n):
        k = len(self.cur.loops)
        li = LoopInfo(k, kind, n.get('range', {}).get('begin', {}).get('_file'), self._line(n))
        self.cur.loops.append(li)
        return k

    def s_WhileStmt(self, n, inner):
        k = self.new_loop('while', n)
        self.loop(k, None, inner[0], None, inner[1], n)

    def s_ForStmt(self, n, inner):
        raw = n.get('inner', [])
        # clang: [init, condvar, cond, inc, body] with {} for absent parts
        init, cond, inc, body = raw[0], raw[2], raw[3], raw[4]
        if self.only_message(body) and init and init.get('kind') == 'DeclStmt' and \
                not any(z.get('kind') in ('CallExpr', 'CXXOperatorCallExpr') for z in walk(inc or {})):
            # a counting loop whose body only appends to an exception/log message
            self.cur.dropped.append(('message-building loop', self._line(n)))
            return
        k = self.new_loop('for', n)
        if (self.cur.cname, k) not in self.loopc and self.index_map_loop(n, init, cond, inc, body):
            return
        self.out('{')
        self.ind += 1
        if init:
            self.s(init)
        self.loop(k, None, cond or None, inc or None, body, n)
        self.ind -= 1
        self.out('}')

    def s_CXXForRangeStmt(self, n, inner):
        raw = n.get('inner', [])
        # [init?, range decl, begin decl, end decl, cond, inc, loopvar decl, body]
        rng_decl = raw[1]['inner'][0]
        loopvar = raw[6]['inner'][0]
        body = raw[7]
        rexpr = [x for x in rng_decl.get('inner', []) if x][-1]
        rtxt = self.e(rexpr)
        rt = self.tm.tname(rexpr['type']).rstrip(' *')
        kind = self.tm.kinds.get(rt)
        if not kind or kind[0] not in ('vec', 'arr'):
            self.abort(n, 'range-for over ' + rt)
        if (self.cur.cname, len(self.cur.loops)) not in self.loopc and kind[0] == 'vec' and self.map_loop(n, loopvar, body, rtxt):
            return
        k = self.new_loop('range-for', n)
        iv = 'verif_i%d' % k
        self.out('{')
        self.ind += 1
        if re.search(r'[A-Za-z_]\w*\(', rtxt) and not rtxt.startswith(('VEC_AT(', 'OPT_VAL(', 'UPTR_VAL(')):
            # the range expression is a call: it is evaluated once, before the loop
            for st in self.pre:
                self.out(st)
            self.pre = []
            self.out('%s verif_rng%d = %s;' % (rt, k, rtxt))
            self.propagate()
            rtxt = 'verif_rng%d' % k
        self.out('c_ulong %s = 0;' % iv)
        if kind[0] == 'vec':
            elem = 'VEC_AT(%s, %s)' % (rtxt, iv)
            size = 'VEC_SIZE(%s)' % rtxt
        else:
            elem = '%sa[%s]' % (self._arrow(rtxt), iv)
            size = '((c_ulong)%d)' % kind[2]
        lq = loopvar['type']['qualType']
        pre = []
        if loopvar.get('kind') == 'DecompositionDecl':
            # `for (const auto& [a, b] : v)`: binding j names component j of the element (or of a copy of it)
            binds = [x for x in loopvar.get('inner', []) if x and x.get('kind') == 'BindingDecl']
            ek = self.tm.kinds.get(kind[1])
            if not ek or ek[0] not in ('tup', 'rec') or len(binds) != len(ek[1]):
                self.abort(n, 'range-for with a structured binding over elements of type ' + str(kind[1]))
            for j, b in enumerate(binds):
                comp = '_%d' % j if ek[0] == 'tup' else ek[1][j][1]
                cty = ek[1][j] if ek[0] == 'tup' else ek[1][j][0]
                if lq.rstrip().endswith('&'):
                    self.alias[b['id']] = '%s.%s' % (elem, comp)
                else:
                    nm = self.fresh(b['name'])
                    self.locals[b['id']] = nm
                    self.var_types[nm] = cty
                    pre.append('%s %s = %s.%s;' % (cty, nm, elem, comp))
        elif lq.rstrip().endswith('&'):
            self.alias[loopvar['id']] = elem
        else:
            name = self.fresh(loopvar['name'])
            self.locals[loopvar['id']] = name
            pre.append('%s %s = %s;' % (self.ty(loopvar), name, elem))
        self.loop(k, pre, '%s < %s' % (iv, size), '++%s' % iv, body, n, textual=True)
        self.ind -= 1
        self.out('}')

    def index_map_loop(self, n, init, cond, inc, body):
        """`for (int i = A; i < B; ++i) X[i] = f(X[i], Y[i], scalars);` (or X[i] op= e) with f free of side effects and no
        other access to X: summarised as the element-wise update it denotes -- no loop contract needed (the loop keeps
        its index in the loop numbering).  Returns False if the loop does not have exactly this shape."""
        def strip(x):
            while x and x.get('kind') in ('ImplicitCastExpr', 'ParenExpr', 'ExprWithCleanups', 'MaterializeTemporaryExpr') and x.get('inner'):
                x = [y for y in x['inner'] if y][0]
            return x
        if not init or init.get('kind') != 'DeclStmt' or not cond or not inc:
            return False
        vds = [v for v in init.get('inner', []) if v]
        if len(vds) != 1 or vds[0].get('kind') != 'VarDecl':
            return False
        iv = vds[0]
        try:
            ict = self.tm.tname(iv['type'])
        except ExtractError:
            return False
        if ict not in ('c_int', 'c_uint', 'c_long', 'c_ulong'):
            return False
        ainit = [x for x in iv.get('inner', []) if x and is_expr(x)]
        if len(ainit) != 1:
            return False
        c = strip(cond)
        if c.get('kind') != 'BinaryOperator' or c.get('opcode') != '<':
            return False
        cl, cr = strip(c['inner'][0]), c['inner'][1]
        if cl.get('kind') != 'DeclRefExpr' or cl['referencedDecl']['id'] != iv['id']:
            return False
        ic = strip(inc)
        if ic.get('kind') != 'UnaryOperator' or ic.get('opcode') != '++' or strip(ic['inner'][0]).get('kind') != 'DeclRefExpr' or \
                strip(ic['inner'][0])['referencedDecl']['id'] != iv['id']:
            return False
        st = body
        while st.get('kind') == 'CompoundStmt':
            inner = [y for y in st.get('inner', []) if y]
            if len(inner) != 1:
                return False
            st = inner[0]
        st = strip(st)
        if st.get('kind') not in ('BinaryOperator', 'CompoundAssignOperator') or (st['kind'] == 'BinaryOperator' and st.get('opcode') != '='):
            return False
        lhs, rhs = strip(st['inner'][0]), st['inner'][1]

        def elem_access(x):
            """(vector node, index node) if x is v[idx] on a modelled vector"""
            x = strip(x)
            if x.get('kind') == 'CXXOperatorCallExpr' and len(x.get('inner', [])) == 3 and \
                    (self.callee_decl(x['inner'][0])[0] or {}).get('name') == 'operator[]':
                return x['inner'][1], x['inner'][2]
            return None
        la = elem_access(lhs)
        if not la:
            return False
        try:
            xct = self.tm.tname(la[0]['type']).rstrip(' *').rstrip()
        except ExtractError:
            return False
        if self.tm.kinds.get(xct, ('',))[0] != 'vec':
            return False
        li = strip(la[1])
        if li.get('kind') != 'DeclRefExpr' or li['referencedDecl']['id'] != iv['id']:
            return False
        # purity: no calls except element reads and calls of extracted/pure getters without arguments that mention the loop variable
        def pure(x, allow_elem=True):
            for y in walk(x):
                k = y.get('kind')
                if k in ('CompoundAssignOperator',) or (k == 'BinaryOperator' and y.get('opcode') == '=') or \
                        (k == 'UnaryOperator' and y.get('opcode') in ('++', '--')) or k in ('CXXThrowExpr', 'LambdaExpr', 'CXXNewExpr'):
                    return False
                if k in ('CallExpr', 'CXXMemberCallExpr'):
                    return False
                if k == 'CXXOperatorCallExpr' and not elem_access(y):
                    return False
            return True
        if not pure(rhs):
            return False
        # start and bound may call argument-less const getters (dstart_(), length_(), dend_()): evaluated once, before the update
        for bnd in (ainit[0], cr):
            for y in walk(bnd):
                if y.get('kind') in ('CXXOperatorCallExpr', 'ArraySubscriptExpr', 'CompoundAssignOperator', 'CallExpr') or \
                        (y.get('kind') == 'UnaryOperator' and y.get('opcode') in ('++', '--')) or \
                        (y.get('kind') == 'BinaryOperator' and y.get('opcode') == '='):
                    return False
                if y.get('kind') == 'CXXMemberCallExpr':
                    if len([a for a in y.get('inner', [])[1:] if a]) != 0:
                        return False
                    md = self.full_decl({'id': y['inner'][0].get('referencedMemberDecl'), 'name': y['inner'][0].get('name')}) if y['inner'][0].get('kind') == 'MemberExpr' else None
                    if md is None or not md['type']['qualType'].rstrip().endswith('const') and 'const' not in md['type']['qualType'].split(')')[-1]:
                        return False
        xtxt = self.e(la[0])
        # every element access in rhs: index must be the loop variable; collect the other vectors read
        others = []
        for y in walk(rhs):
            ea = elem_access(y) if y.get('kind') == 'CXXOperatorCallExpr' else None
            if ea:
                idx = strip(ea[1])
                if idx.get('kind') != 'DeclRefExpr' or idx['referencedDecl']['id'] != iv['id']:
                    return False
                vt = self.e(ea[0])
                if vt != xtxt and vt not in others:
                    others.append(vt)
        a_txt, b_txt = self.e(ainit[0]), self.e(cr)
        called = self.called
        self.alias[iv['id']] = 'verif_q'
        try:
            rtxt = self.e(rhs)
            ltxt = self.e(lhs)
        finally:
            del self.alias[iv['id']]

        def devec(t):
            # element reads become plain array reads (no bounds obligation inside the quantifier; the range obligation is stated once)
            out, j = '', 0
            while True:
                p = t.find('VEC_AT(', j)
                if p < 0:
                    return out + t[j:]
                depth, q = 0, p + 6
                while True:
                    ch = t[q]
                    if ch == '(':
                        depth += 1
                    elif ch == ')':
                        depth -= 1
                        if depth == 0:
                            break
                    q += 1
                inside = t[p + 7:q]
                # split at the top-level comma
                d, cpos = 0, -1
                for m, ch in enumerate(inside):
                    if ch in '([':
                        d += 1
                    elif ch in ')]':
                        d -= 1
                    elif ch == ',' and d == 0:
                        cpos = m
                        break
                vec, idx = inside[:cpos].strip(), devec(inside[cpos + 1:].strip())
                out += t[j:p] + ('verif_old.data[%s]' % idx if vec == xtxt else '(%s).data[%s]' % (vec, idx))
                j = q + 1
        if st['kind'] == 'BinaryOperator':
            newv = devec(rtxt)
        else:
            op = st['opcode'][:-1]
            a, b = 'verif_old.data[verif_q]', devec(rtxt)
            newv = 'RDIV(%s, %s)' % (a, b) if (op == '/' and self.tm.tname(lhs['type']) in ('real_t', 'realf_t')) else \
                ('IDIV(%s, %s)' % (a, b) if op == '/' else ('IMOD(%s, %s)' % (a, b) if op == '%' else '(%s) %s (%s)' % (a, op, b)))
        if 'VEC_AT(' in newv or 'verif_thrown' in newv:
            return False
        self.cur.stubs.add('element-wise summary of a side-effect-free index loop  for (i = a; i < b; ++i) x[i] = f(x[i], y[i], ...)')
        self.cur.dropped.append(('index update loop summarised element-wise', self._line(n)))
        self.out('{   /* for (i = a; i < b; ++i) x[i] = f(x[i], ...): x[k] = f(x[k], ...) for a <= k < b; nothing else changes (loop %d) */' % (len(self.cur.loops) - 1))
        self.ind += 1
        self.out('c_long verif_a = (c_long)(%s), verif_b = (c_long)(%s);' % (a_txt, b_txt))
        if self.called:
            self.propagate()
        self.out('VERIF_OBL(!(verif_a < verif_b) || (verif_a >= 0 && (unsigned long)verif_b <= (%s).size), "%s/index loop line %s stays inside the updated vector");' % (xtxt, self.cur.cname, self._line(n)))
        for o in others:
            self.out('VERIF_OBL(!(verif_a < verif_b) || (unsigned long)verif_b <= (%s).size, "%s/index loop line %s stays inside the vector read");' % (o, self.cur.cname, self._line(n)))
        self.out('__typeof__(%s) verif_old = (%s);' % (xtxt, xtxt))
        self.out('__typeof__(%s) verif_dn;' % xtxt)
        self.out('__CPROVER_assume(verif_dn.size == verif_old.size);')
        rng = '(verif_a <= (c_long)(%s) && (c_long)(%s) < verif_b)'
        if self.instantiate:
            for g in self.instantiate:
                self.out('__CPROVER_assume(verif_dn.data[%s] == (%s ? (%s) : verif_old.data[%s]));' % (g, rng % (g, g), newv.replace('verif_q', g), g))
        else:
            self.out('__CPROVER_assume(__CPROVER_forall { c_ulong verif_q; verif_dn.data[verif_q] == (%s ? (%s) : verif_old.data[verif_q]) });' % (rng % ('verif_q', 'verif_q'), newv))
        self.out('(%s) = verif_dn;' % xtxt)
        self.ind -= 1
        self.out('}')
        return True

    def map_loop(self, n, loopvar, body, rtxt):
        """`for (auto& x : v) x = f(x);` (or x op= e) with f free of side effects: summarised as the element-wise
        update it denotes, exactly like std::transform -- no loop contract needed.  Returns False if the loop
        does not have this shape."""
        if not loopvar['type']['qualType'].rstrip().endswith('&') or 'const' in loopvar['type']['qualType']:
            return False
        st = body
        while st.get('kind') == 'CompoundStmt':
            inner = [y for y in st.get('inner', []) if y]
            if len(inner) != 1:
                return False
            st = inner[0]
        while st.get('kind') == 'ExprWithCleanups' and st.get('inner'):
            st = st['inner'][0]
        if st.get('kind') not in ('BinaryOperator', 'CompoundAssignOperator') or (st['kind'] == 'BinaryOperator' and st.get('opcode') != '='):
            return False
        lhs, rhs = st['inner'][0], st['inner'][1]
        if lhs.get('kind') != 'DeclRefExpr' or lhs['referencedDecl']['id'] != loopvar['id']:
            return False
        for y in walk(rhs):
            if y.get('kind') in ('CallExpr', 'CXXMemberCallExpr', 'CXXOperatorCallExpr', 'UnaryOperator') and \
                    (y.get('kind') != 'UnaryOperator' or y.get('opcode') in ('++', '--')):
                return False
        self.alias[loopvar['id']] = '(verif_old.data[verif_q])'
        fx = self.e(st).split('=', 1)
        # re-translate: value of the element after the statement
        self.alias[loopvar['id']] = '(verif_old.data[verif_q])'
        if st['kind'] == 'BinaryOperator':
            newv = self.e(rhs)
        else:
            op = st['opcode'][:-1]
            a, b = '(verif_old.data[verif_q])', self.e(rhs)
            newv = 'RDIV(%s, %s)' % (a, b) if (op == '/' and self.tm.tname(lhs['type']) in ('real_t', 'realf_t')) else \
                ('IDIV(%s, %s)' % (a, b) if op == '/' else ('IMOD(%s, %s)' % (a, b) if op == '%%' else '%s %s %s' % (a, op, b)))
        del self.alias[loopvar['id']]
        self.cur.stubs.add('element-wise summary of a side-effect-free range-for update loop')
        self.cur.dropped.append(('range-for update loop summarised element-wise', self._line(n)))
        self.out('{   /* for (auto& x : v) x = f(x): v[k] = f(v[k]) for every k < v.size(); nothing else changes */')
        self.ind += 1
        self.out('__typeof__(%s) verif_old = (%s);' % (rtxt, rtxt))
        self.out('__typeof__(%s) verif_dn;' % rtxt)
        self.out('__CPROVER_assume(verif_dn.size == verif_old.size);')
        if self.instantiate:
            for g in self.instantiate:
                self.out('__CPROVER_assume(((%s) < verif_old.size) ? (verif_dn.data[%s] == (%s)) : (verif_dn.data[%s] == verif_old.data[%s]));' % (
                    g, g, newv.replace('verif_q', g), g, g))
        else:
            self.out('__CPROVER_assume(__CPROVER_forall { c_ulong verif_q; (verif_q < verif_old.size) ==> verif_dn.data[verif_q] == (%s) });' % newv)
            self.out('__CPROVER_assume(__CPROVER_forall { c_ulong verif_q; (verif_q >= verif_old.size) ==> verif_dn.data[verif_q] == verif_old.data[verif_q] });')
        self.out('(%s) = verif_dn;' % rtxt)
        self.ind -= 1
        self.out('}')
        return True

    def loop(self, k, pre, cond, inc, body, n, textual=False):
        cn = self.cur.cname
        c = self.loopc.get((cn, k))
        ctext = (cond if textual else (self.e(cond) if cond else '1'))
        itext = (inc if textual else (self.e(inc) if inc else ''))
        self.out('/* loop %d: %s */' % (k, self._loc(n)))
        if c is None:
            g = self.ghost_get((cn, 'loop %d pre' % k))
            if g:
                self.out(g)
            self.brk.append(('loop', None))
            self.out('for (; %s; %s)' % (ctext, itext))
            self.out('{')
            self.ind += 1
            for p in pre or []:
                self.out(p)
            g = self.ghost_get((cn, 'loop %d body_begin' % k))
            if g:
                self.out(g)
            self.body_or_text(body)
            g = self.ghost_get((cn, 'loop %d body_end' % k))
            if g:
                self.out(g)
            self.ind -= 1
            self.out('}')
            self.brk.pop()
            return
        self.cur.loops[k].contract = c
        tag = '%s/loop %d' % (cn, k)
        g = self.ghost_get((cn, 'loop %d pre' % k))
        if g:
            self.out(g)
        for nm, ex in c['invariant']:
            self.out('VERIF_OBL(%s, "%s/invariant %s base");' % (ex, tag, nm))
        for a in c.get('assigns', []):
            self.out('VERIF_HAVOC(%s);' % a)
            v = self.tm.valid_for(a, self.var_types)
            if v:
                self.out('__CPROVER_assume(%s);   /* type invariant of the havocked object */' % v)
        for nm, ex in c['invariant']:
            self.out('__CPROVER_assume(%s);' % ex)
        self.out('{')
        self.ind += 1
        dec = c.get('decreases')
        if dec:
            self.out('__typeof__((%s) + 0) verif_d0 = (%s);' % (dec, dec))
        self.out('if (%s)' % ctext)
        self.out('{')
        self.ind += 1
        for p in pre or []:
            self.out(p)
        g = self.ghost_get((cn, 'loop %d body_begin' % k))
        if g:
            self.out(g)
        self.brk.append(('cloop', k))
        self.body_or_text(body)
        self.brk.pop()
        self.out('verif_cont_%d: ;' % k)
        if itext:
            self.out(itext + ';')
        g = self.ghost_get((cn, 'loop %d body_end' % k))
        if g:
            self.out(g)
        for nm, ex in c['invariant']:
            self.out('VERIF_OBL(%s, "%s/invariant %s step");' % (ex, tag, nm))
        if dec:
            self.out('VERIF_OBL((%s) >= 0 && (%s) < verif_d0, "%s/decreases");' % (dec, dec, tag))
        self.out('__CPROVER_assume(0);')
        self.ind -= 1
        self.out('}')
        self.ind -= 1
        self.out('}')
        self.out('verif_brk_%d: ;' % k)
        g = self.ghost_get((cn, 'loop %d post' % k))
        if g:
            self.out(g)

    def body_or_text(self, body):
        if isinstance(body, str):
            self.out('{')
            self.ind += 1
            for ln in body.split('\n'):
                self.out(ln)
            self.ind -= 1
            self.out('}')
        else:
            self.block(body)

    def transform_is_simple(self, n):
        """std::transform(v.begin(), v.end(), w.begin(), <local lambda>)?"""
        args = [x for x in n.get('inner', []) if x][1:]
        if len(args) != 4:
            return True
        def strip(x):
            while x.get('kind') in ('ImplicitCastExpr', 'MaterializeTemporaryExpr', 'CXXConstructExpr', 'ExprWithCleanups', 'CXXBindTemporaryExpr') and x.get('inner'):
                x = [y for y in x['inner'] if y][0]
            return x
        d, f = strip(args[2]), strip(args[3])
        return d.get('kind') == 'CXXMemberCallExpr' and d['inner'][0].get('name') == 'begin' and \
            f.get('kind') == 'DeclRefExpr' and f['referencedDecl']['id'] in self.lambdas

    def std_transform_iter(self, n, assign_to=None):
        """std::transform(v.begin(), v.end(), d, f) with d ANY iterator into a modelled vector and f a callable object
        (std::function parameter: pure function keyed by the object): w[d + k] = f(v[k]); the obligation that the
        destination range lies inside the destination vector is what the standard requires of the caller."""
        inner = [x for x in n.get('inner', []) if x]
        args = inner[1:]
        if len(args) != 4:
            self.abort(n, 'std::transform with %d arguments' % len(args))

        def strip(x):
            while x.get('kind') in ('ImplicitCastExpr', 'MaterializeTemporaryExpr', 'CXXConstructExpr', 'ExprWithCleanups', 'CXXBindTemporaryExpr') and x.get('inner'):
                x = [y for y in x['inner'] if y][0]
            return x
        b, e_ = strip(args[0]), strip(args[1])
        if b.get('kind') != 'CXXMemberCallExpr' or b['inner'][0].get('name') not in ('begin', 'cbegin') or \
                e_.get('kind') != 'CXXMemberCallExpr' or e_['inner'][0].get('name') not in ('end', 'cend'):
            self.abort(n, 'std::transform source range is not [v.begin(), v.end())')
        src = self.iter_container(b)
        if src != self.iter_container(e_):
            self.abort(n, 'std::transform over a range of two different containers')
        dbase, doff = self.iter_container(args[2]), self.e(args[2])
        f = strip(args[3])
        if f.get('kind') != 'DeclRefExpr':
            self.abort(n, 'std::transform with a callable that is not a named object')
        try:
            fct = self.tm.tname(f['type']).rstrip(' *').rstrip()
        except ExtractError:
            fct = None
        if fct != 'c_opaque':
            self.abort(n, 'std::transform with a callable that is not an opaque callable object')
        if not self.instantiate:
            self.abort(n, 'std::transform through a callable object needs @instantiate (no function calls inside quantifiers)')
        dk = self.tm.kinds.get(self.tm_type_of_text(dbase) or '', None)
        sk = self.tm.kinds.get(self.tm_type_of_text(src) or '', None)
        if not dk or not sk or dk[0] != 'vec' or sk[0] != 'vec':
            self.abort(n, 'std::transform between containers that are not modelled vectors')
        rt, at = dk[1], sk[1]
        cn = 'OPQ_call_' + ident(rt)
        self.opaque_decls[cn] = (rt, ['c_opaque', at], 'callable object')
        ftxt = self.e(f)
        self.cur.stubs.add('std::transform(first, last, d, f): d[k] = f(first[k]); requires [d, d + (last - first)) to be a valid range (library contract)')
        self.out('{   /* std::transform into an iterator position: w[d + k] = f(v[k]) for every k < v.size(); nothing else changes */')
        self.ind += 1
        self.out('__typeof__(%s) verif_old = (%s);' % (src, src))
        self.out('__typeof__(%s) verif_dold = (%s);' % (dbase, dbase))
        self.out('c_ulong verif_off = (%s);' % doff)
        self.out('VERIF_OBL(verif_off <= verif_dold.size && verif_old.size <= verif_dold.size - verif_off, "%s/std::transform: the destination range lies inside the destination vector (line %s)");' % (self.cur.cname, self._line(n)))
        self.out('__typeof__(%s) verif_dn;' % dbase)
        self.out('__CPROVER_assume(verif_dn.size == verif_dold.size);')
        for g in self.instantiate:
            self.out('__CPROVER_assume(verif_dn.data[%s] == ((verif_off <= (%s) && (%s) - verif_off < verif_old.size) ? %s(%s, verif_old.data[(%s) - verif_off]) : verif_dold.data[%s]));' % (g, g, g, cn, ftxt, g, g))
        self.out('(%s) = verif_dn;' % dbase)
        if assign_to:
            self.out('%s = (c_vecit)(verif_off + verif_old.size);' % assign_to)
        self.ind -= 1
        self.out('}')

    def tm_type_of_text(self, txt):
        """C type of a simple variable / member access text (locals, parameters, self members)"""
        t = txt.strip()
        if t.startswith('(*') and t.endswith(')'):
            base = self.var_types.get(t[2:-1])
            return base.rstrip(' *').rstrip() if base else None
        if t in self.var_types:
            return self.var_types[t].rstrip(' *').rstrip()
        try:
            return self.tm.lvalue_type(t, {k: v for k, v in self.var_types.items()})
        except Exception:
            return None

    def std_transform(self, n):
        """std::transform(v.begin(), v.end(), w.begin(), <local lambda>) as the element loop it denotes"""
        inner = [x for x in n.get('inner', []) if x]
        args = inner[1:]
        if len(args) != 4:
            self.abort(n, 'std::transform with %d arguments' % len(args))

        def vec_of(a, which):
            x = a
            while x.get('kind') in ('ImplicitCastExpr', 'MaterializeTemporaryExpr', 'CXXConstructExpr', 'ExprWithCleanups') and x.get('inner'):
                x = [y for y in x['inner'] if y][0]
            if x.get('kind') != 'CXXMemberCallExpr' or x['inner'][0].get('name') != which:
                self.abort(n, 'std::transform argument is not <vector>.%s()' % which)
            return self.e(x['inner'][0]['inner'][0])
        src, src_e, dst = vec_of(args[0], 'begin'), vec_of(args[1], 'end'), vec_of(args[2], 'begin')
        if src != src_e:
            self.abort(n, 'std::transform over a range of two different containers')
        lam = args[3]
        while lam.get('kind') in ('ImplicitCastExpr', 'MaterializeTemporaryExpr', 'CXXConstructExpr', 'ExprWithCleanups') and lam.get('inner'):
            lam = [y for y in lam['inner'] if y][0]
        if lam.get('kind') != 'DeclRefExpr' or lam['referencedDecl']['id'] not in self.lambdas:
            self.abort(n, 'std::transform with a callable that is not a local lambda')
        call = self.lambdas[lam['referencedDecl']['id']]
        # the lambda as a pure expression of the element (single return statement)
        params = [p for p in call.get('inner', []) if p.get('kind') == 'ParmVarDecl']
        body = [b for b in call.get('inner', []) if b.get('kind') == 'CompoundStmt']
        stmts = [x for x in body[0].get('inner', []) if x] if body else []
        if len(params) != 1 or len(stmts) != 1 or stmts[0].get('kind') != 'ReturnStmt':
            self.abort(n, 'std::transform with a lambda that is not a single return expression')
        if any(y.get('kind') in ('CallExpr', 'CXXMemberCallExpr', 'CXXOperatorCallExpr') and self.fn_cname(self.callee_decl(y['inner'][0])[0] or {})
               for y in walk(stmts[0])):
            self.abort(n, 'std::transform with a lambda that calls extracted functions')
        self.alias[params[0]['id']] = '(verif_old.data[verif_q])'
        fx = self.e([x for x in stmts[0].get('inner', []) if x][0])
        del self.alias[params[0]['id']]
        self.cur.stubs.add('std::transform(v.begin(), v.end(), w.begin(), f) == element-wise application of the pure lambda f (library semantics)')
        self.out('{   /* std::transform: w[k] = f(v[k]) for every k < v.size(); nothing else changes (no loop to unwind) */')
        self.ind += 1
        self.out('__typeof__(%s) verif_old = (%s);' % (src, src))
        self.out('__typeof__(%s) verif_dn;' % dst)
        if dst != src:
            self.out('VERIF_OBL(verif_old.size <= (%s).size, "std::transform: destination range large enough");' % dst)
        self.out('__CPROVER_assume(verif_dn.size == (%s).size);' % dst)
        if self.instantiate:
            # quantifier-free: the element-wise fact is stated at the unit's ghost indices only (a weaker, hence sound,
            # assumption; the contracts speak about exactly those elements) -- keeps refutations decidable
            for g in self.instantiate:
                fg = fx.replace('verif_q', g)
                self.out('__CPROVER_assume(((%s) < verif_old.size) ? (verif_dn.data[%s] == (%s)) : (verif_dn.data[%s] == (%s).data[%s]));' % (g, g, fg, g, dst, g))
        else:
            self.out('__CPROVER_assume(__CPROVER_forall { c_ulong verif_q; (verif_q < verif_old.size) ==> verif_dn.data[verif_q] == (%s) });' % fx)
            self.out('__CPROVER_assume(__CPROVER_forall { c_ulong verif_q; (verif_q >= verif_old.size) ==> verif_dn.data[verif_q] == (%s).data[verif_q] });' % dst)
        self.out('(%s) = verif_dn;' % dst)
        self.ind -= 1
        self.out('}')

    def elem_eq(self, ct, a, b):
        """quantifier-free text of a == b for a value of C type ct (scalars, optionals, tuples, arrays, records of those)"""
        if ct in SCALAR_C or ct.endswith('*'):
            return '(%s == %s)' % (a, b)
        k = self.tm.kinds.get(ct)
        if not k or k[0] == 'vec':
            self.abort(None, 'element-wise equality of objects of type ' + ct)
        if k[0] == 'arr':
            return '(' + ' && '.join(self.elem_eq(k[1], '%s.a[%d]' % (a, i), '%s.a[%d]' % (b, i)) for i in range(k[2])) + ')'
        if k[0] == 'tup':
            return '(' + ' && '.join(self.elem_eq(t, '%s._%d' % (a, i), '%s._%d' % (b, i)) for i, t in enumerate(k[1])) + ')'
        if k[0] == 'opt':
            return '(%s.has == %s.has && (!%s.has || %s))' % (a, b, a, self.elem_eq(k[1], a + '.val', b + '.val'))
        return '(' + (' && '.join(self.elem_eq(t, '%s.%s' % (a, n), '%s.%s' % (b, n)) for t, n in k[1]) or '1') + ')'

    def _is_empty_init(self, x):
        """`member{}`: an empty initialiser list / a construction without arguments"""
        while x.get('kind') in ('ExprWithCleanups', 'CXXBindTemporaryExpr', 'MaterializeTemporaryExpr', 'ImplicitCastExpr') and x.get('inner'):
            x = [y for y in x['inner'] if y][0]
        return x.get('kind') in ('InitListExpr', 'CXXConstructExpr', 'CXXTemporaryObjectExpr') and not [y for y in x.get('inner', []) if y]

    def value_init_facts(self, ct, a, n=None):
        """text stating that the object a of C type ct is value-initialised (T{}): scalars are zero, optionals empty, records
        with an implicit / defaulted default constructor have their default member initialisers or value-initialised
        members.  Anything else (a user-provided default constructor, containers) aborts."""
        if ct == 'c_opaque':
            return '1'
        if ct in SCALAR_C or ct.endswith('*'):
            return '(%s == 0)' % a
        k = self.tm.kinds.get(ct)
        if k and k[0] == 'opt':
            return '(!%s.has)' % a
        if k and k[0] == 'vec':
            return '(%s.size == 0)' % a
        if k and k[0] == 'rec':
            rec = self.rec_decls.get(ct) or {}
            for c in rec.get('inner', []):
                if c.get('kind') == 'CXXConstructorDecl' and not c.get('isImplicit') and not c.get('explicitlyDefaulted') and \
                        re.match(r'void \((void)?\)', c.get('type', {}).get('qualType', '')):
                    self.abort(n, 'value-initialisation of %s, whose default constructor is user-provided' % ct)
            facts = []
            for t, fn in k[1]:
                fd = [x for x in rec.get('inner', []) if x.get('kind') == 'FieldDecl' and x.get('name') == fn]
                init = [y for y in (fd[0].get('inner', []) if fd else []) if y and is_expr(y)]
                if init and (t in SCALAR_C):
                    facts.append('(%s.%s == %s)' % (a, fn, self.e(init[-1])))
                elif init and not self._is_empty_init(init[-1]):
                    self.abort(n, 'default member initialiser of the non-scalar member %s.%s' % (ct, fn))
                else:
                    facts.append(self.value_init_facts(t, '%s.%s' % (a, fn), n))
            return '(' + (' && '.join(facts) or '1') + ')'
        self.abort(n, 'value-initialisation of an object of type ' + ct)

    def vec_update(self, dst, new_size, fx, keep, what, elem_ct=None):
        """dst becomes a vector of new_size elements: element q is fx (an expression in verif_q, verif_old); with
        keep='keep' the elements below the old size are retained.  Stated at the unit's ghost indices when
        @instantiate is given (weaker, sound), else with a quantifier."""
        self.cur.stubs.add(what + ' (library semantics)')
        self.out('{   /* %s */' % what)
        self.ind += 1
        self.out('__typeof__(%s) verif_old = (%s);' % (dst, dst))
        self.out('c_ulong verif_ns = (%s);' % new_size)
        self.out('__typeof__(%s) verif_dn;' % dst)
        self.out('__CPROVER_assume(verif_dn.size == verif_ns);')
        def fact(q):
            if fx is None:
                # new elements are value-initialised objects of the (non-scalar) element type
                new = self.value_init_facts(elem_ct, 'verif_dn.data[%s]' % q)
                same = self.elem_eq(elem_ct, 'verif_dn.data[%s]' % q, 'verif_old.data[%s]' % q)
                return '((%s) < verif_old.size ? %s : %s)' % (q, same, new) if keep else new
            f = fx.replace('verif_q', q)
            if keep:
                return '((%s) < verif_old.size ? verif_dn.data[%s] == verif_old.data[%s] : verif_dn.data[%s] == (%s))' % (q, q, q, q, f)
            return 'verif_dn.data[%s] == (%s)' % (q, f)
        if self.instantiate:
            for g in self.instantiate:
                self.out('__CPROVER_assume(!((%s) < verif_ns) || %s);' % (g, fact(g)))
        else:
            self.out('__CPROVER_assume(__CPROVER_forall { c_ulong verif_q; (verif_q < verif_ns) ==> %s });' % fact('verif_q'))
        self.out('(%s) = verif_dn;' % dst)
        self.ind -= 1
        self.out('}')

    def std_iota(self, n):
        """std::iota(v.begin(), v.end(), start): v[k] = start + k"""
        inner = [x for x in n.get('inner', []) if x]
        args = inner[1:]
        if len(args) != 3:
            self.abort(n, 'std::iota with %d arguments' % len(args))

        def vec_of(a, which):
            x = a
            while x.get('kind') in ('ImplicitCastExpr', 'MaterializeTemporaryExpr', 'CXXConstructExpr', 'ExprWithCleanups') and x.get('inner'):
                x = [y for y in x['inner'] if y][0]
            if x.get('kind') != 'CXXMemberCallExpr' or x['inner'][0].get('name') != which:
                self.abort(n, 'std::iota argument is not <vector>.%s()' % which)
            me = x['inner'][0]
            o = self.e(me['inner'][0])
            return '(*%s)' % o if me.get('isArrow') else o
        v, ve = vec_of(args[0], 'begin'), vec_of(args[1], 'end')
        if v != ve:
            self.abort(n, 'std::iota over a range of two different containers')
        start = self.e(args[2])
        return self.vec_update(v, '(%s).size' % v, '(%s) + verif_q' % start, None, 'std::iota(v.begin(), v.end(), s): v[k] = s + k')

    def s_BreakStmt(self, n, inner):
        kind, k = self.brk[-1]
        if kind == 'cloop':
            self.out('goto verif_brk_%d;' % k)
        elif kind == 'do0':
            self.abort(n, 'break out of do{}while(0)')
        else:
            self.out('break;')

    def s_ContinueStmt(self, n, inner):
        for kind, k in reversed(self.brk):
            if kind == 'cloop':
                self.out('goto verif_cont_%d;' % k)
                return
            if kind == 'loop':
                self.out('continue;')
                return
        self.abort(n, 'continue outside loop')

    def s_SwitchStmt(self, n, inner):
        raw = [x for x in n.get('inner', []) if x]
        cond, body = raw[-2], raw[-1]
        self.out('switch (%s)' % self.e(cond))
        self.brk.append(('switch', None))
        self.block(body)
        self.brk.pop()

    def s_CaseStmt(self, n, inner):
        self.ind -= 1
        self.out('case %s:' % self.e(inner[0]))
        self.ind += 1
        self.s(inner[-1])

    def s_DefaultStmt(self, n, inner):
        self.ind -= 1
        self.out('default:')
        self.ind += 1
        self.s(inner[-1])

    def s_GotoStmt(self, n, inner):
        tgt = self.db.byid.get(n.get('targetLabelDeclId'))
        name = tgt.get('name') if tgt else None
        if not name:
            for x in walk(self.cur_body):
                if x.get('kind') == 'LabelStmt' and x.get('declId') == n.get('targetLabelDeclId'):
                    name = x.get('name')
        if not name:
            self.abort(n, 'goto with unknown label')
        self.out('goto %s;' % name)

    def s_LabelStmt(self, n, inner):
        self.out('%s: ;' % n['name'])
        for x in inner:
            self.s(x)

    def s_CXXTryStmt(self, n, inner):
        self.abort(n, 'try/catch')

    # ================================================================== functions
    def class_of(self, d):
        par = d.get('_parent')
        if 'parentDeclContextId' in d:
            par = self.db.byid.get(d['parentDeclContextId'], par)
        while par is not None and par.get('kind') == 'FunctionTemplateDecl':
            p2 = par.get('_parent')
            if 'parentDeclContextId' in par:
                p2 = self.db.byid.get(par['parentDeclContextId'], p2)
            par = p2
        return par

    def is_static(self, d):
        x, n = d, 0
        while x is not None and n < 8:
            if x.get('storageClass') == 'static':
                return True
            x = self.db.byid.get(x.get('previousDecl'))
            n += 1
        return False

    def method_self_type(self, d):
        par = self.class_of(d)
        if par is None or par.get('kind') not in ('CXXRecordDecl', 'ClassTemplateSpecializationDecl',
                                                    'ClassTemplatePartialSpecializationDecl'):
            return None
        return self.record_ctype(par)

    def record_ctype(self, rec):
        key = 'rec#' + rec['id']
        if key in self._rec_cache:
            return self._rec_cache[key]
        name = rec.get('name', 'anon')
        targs = [self._targ(k) for k in rec.get('inner', []) if k.get('kind') == 'TemplateArgument']
        # nested classes are named with their enclosing classes (two classes called Impl must not collide)
        chain, par, hops = [], rec, 0
        while par is not None and hops < 6:
            nxt = self.db.byid.get(par.get('parentDeclContextId')) if par.get('parentDeclContextId') else par.get('_parent')
            if nxt is None or nxt.get('kind') not in ('CXXRecordDecl', 'ClassTemplateSpecializationDecl'):
                break
            chain.append(nxt.get('name', ''))
            par, hops = nxt, hops + 1
        if chain:
            name = '_'.join(reversed(chain)) + '_' + name
        full = name + ('<' + ', '.join(targs) + '>' if targs else '')
        cname = None
        for rx, cn in self.records.items():
            if re.fullmatch(rx, full):
                cname = cn
        cname = cname or ident(name + ('_' + '_'.join(targs) if targs else ''))
        self._rec_cache[key] = 'struct ' + cname
        fields = []
        for b in rec.get('bases', []):
            # a (non-virtual) base class is its sub-object: first members of the derived record
            if b.get('isVirtual'):
                raise ExtractError('virtual base class of ' + name)
            bt = self.tm.tname(b['type'])
            if bt == 'c_opaque':
                continue
            if bt.startswith('struct ') and bt not in self.tm.kinds:
                del self._rec_cache[key]
                raise ExtractError('recursive record: base %s of %s is still under construction' % (bt, name))
            if not bt.startswith('struct '):
                raise ExtractError('base class %s of %s is not a record' % (b['type'].get('qualType'), name))
            fields.append((bt, 'verif_base_' + bt[len('struct '):]))
        for k in rec.get('inner', []):
            if k.get('kind') == 'FieldDecl':
                try:
                    ft = self.tm.tname(k['type'])
                except ExtractError:
                    # a member of a type the extractor does not model: kept as an opaque placeholder; any USE of it
                    # in extracted code still aborts the extraction (or is an explicitly modelled opaque operation)
                    ft = 'c_opaque'
                    self.opaque_fields.add('%s::%s' % (cname, k['name']))
                kd = self.tm.kinds.get(ft)
                if kd and kd[0] == 'vec' and self.has_unbounded(kd[1]):
                    ft = 'c_opaque'      # vector of vectors / of records holding vectors: nested unbounded arrays are not supported by CBMC
                    self.opaque_fields.add('%s::%s' % (cname, k['name']))
                elif ft.startswith('struct ') and ft not in self.tm.kinds:
                    ft = 'c_opaque'      # a record still under construction: recursive type
                    self.opaque_fields.add('%s::%s' % (cname, k['name']))
                fields.append((ft, k['name']))
        self.tm.add_record(cname, fields)
        self.rec_decls['struct ' + cname] = rec
        return 'struct ' + cname

    def has_unbounded(self, ct, depth=0):
        """does C type ct contain an unbounded array (a modelled vector / string), or is it still being built?"""
        ct = ct.strip()
        kd = self.tm.kinds.get(ct)
        if kd is None:
            return ct.startswith('struct ')     # record under construction (recursive) -- treat as unbounded
        if kd[0] == 'vec':
            return True
        if depth > 12:
            return True
        if kd[0] == 'rec':
            return any(self.has_unbounded(t, depth + 1) for t, _ in kd[1])
        if kd[0] in ('opt', 'arr'):
            return self.has_unbounded(kd[1], depth + 1)
        if kd[0] == 'tup':
            return any(self.has_unbounded(t, depth + 1) for t in kd[1])
        return False

    def function(self, d, cname):
        f = CFunc()
        self.cur = f
        f.cname, f.qual = cname, d.get('_qual', d.get('name'))
        f.file = d['loc'].get('_file')
        f.line = d['loc'].get('_line')
        src = self.db.source_bytes(d)
        f.sha = hashlib.sha256(src).hexdigest() if src else ''
        self.locals, self.ref_locals, self.alias = {}, set(), {}
        self.used_names = {'self'}
        self.lines, self.ind, self.brk = [], 0, []
        self.called = False
        self.pre, self.no_hoist = [], False
        self.post = []
        self.ghost_used = set()
        self.exported = {}
        self.cur_body = d
        self.builder_ids = set()
        self.lambdas = {}
        self.var_types = {}
        self.cptr_params = {}
        self.iter_base = {}
        rt = d['type']['qualType']
        p = rt.find('(')
        rts = rt[:p].strip()
        is_method = d['kind'] in ('CXXMethodDecl', 'CXXConstructorDecl', 'CXXConversionDecl') and not self.is_static(d)
        if d['kind'] == 'CXXConstructorDecl':
            f.ret = 'void'
            self.ret_is_ref = False
        else:
            self.ret_is_ref = rts.endswith('&')
            # the JSON 'type' of a function is its sugared spelling; ask clang's desugared form when present
            f.ret = self.tm.c(self._desugar_ret(d, rts))
            if self.ret_is_ref and self.ret_by_value(rts):
                self.ret_is_ref = False
                f.ret = f.ret.rstrip(' *').rstrip()
        self.cur_record = None
        if d['kind'] in ('CXXMethodDecl', 'CXXConstructorDecl', 'CXXConversionDecl'):
            self.cur_record = self.class_of(d)
        if is_method:
            st = self.method_self_type(d)
            if st is None:
                raise ExtractError('cannot find the class of method ' + f.qual)
            f.self_type = st
            f.params.append((st + ' *', 'self', True))
            self.var_types['self'] = st + ' *'
        for pd in d.get('inner', []):
            if pd.get('kind') != 'ParmVarDecl':
                continue
            name = pd.get('name') or 'verif_unnamed%d' % len(f.params)
            self.used_names.add(name)
            self.locals[pd['id']] = name
            qt = pd['type']['qualType']
            mcp = re.fullmatch(r'const\s+([A-Za-z_ ]+?)\s*\*(\s*const)?', (pd['type'].get('desugaredQualType') or qt).strip())
            if mcp and mcp.group(1).strip() in BUILTIN and mcp.group(1).strip() != 'char':
                # pointer to an array of constant scalars owned by the caller: the pointer is an opaque identity and
                # p[i] a pure (uninterpreted) function of (p, i); its extent is the caller's obligation
                self.cptr_params[pd['id']] = self.tm.c(mcp.group(1).strip())
                f.params.append(('c_opaque', name, False))
                self.cur.stubs.add('%s[i] of the caller-owned constant array %s: pure function of (pointer, index); extent not checked' % (name, name))
            elif self.by_pointer(qt):
                self.ref_locals.add(pd['id'])
                f.params.append((self.tm.tname(pd['type']), name, True))
            else:
                ct = self.tm.tname(pd['type'])
                if qt.rstrip().endswith('&'):
                    ct = ct.rstrip(' *')
                f.params.append((ct, name, False))
            self.var_types[name] = f.params[-1][0]
        body = [x for x in d.get('inner', []) if x.get('kind') == 'CompoundStmt']
        if not body:
            raise ExtractError('no body for ' + f.qual)
        self.drop_ids, self.sinks = self.droppable_strings(body[0])
        self.out('{')
        self.ind += 1
        for ci in d.get('inner', []):
            if ci.get('kind') == 'CXXCtorInitializer':
                fld = ci.get('anyInit', {})
                if not fld:
                    self.abort(ci, 'base/delegating constructor initialiser')
                x = [y for y in ci.get('inner', []) if y]
                if x and x[0].get('kind') == 'CXXDefaultInitExpr':
                    # default member initialiser: the expression is the one written at the field's declaration
                    fd = self.db.byid.get(fld.get('id')) or {}
                    init = [y for y in fd.get('inner', []) if y and is_expr(y)]
                    if fd.get('kind') != 'FieldDecl' or fd.get('name') != fld.get('name') or not init:
                        self.abort(ci, 'default member initialiser of ' + str(fld.get('name')))
                    x = [init[-1]]
                self.out('self->%s = %s;' % (fld['name'], self.e(x[0])))
        g = self.ghost_get((cname, 'entry'))
        if g:
            self.out(g)
        for x in [y for y in body[0].get('inner', []) if y]:
            self.s(x)
        self.ind -= 1
        self.out('}')
        for (gc, anchor) in self.ghosts:
            if gc == cname and anchor not in self.ghost_used:
                raise ExtractError('%s: ghost anchor %r does not exist in the extracted function' % (f.qual, anchor))
        f.text = f.proto() + '\n' + '\n'.join(self.lines) + '\n'
        self.cur = None
        return f

    def proto_only(self, d, cname):
        """a function of another translation unit: signature only (it is always replaced by its contract)"""
        f = CFunc()
        self.cur = f
        f.cname, f.qual = cname, d.get('_qual', d.get('name'))
        f.file, f.line = d['loc'].get('_file'), d['loc'].get('_line')
        rt = d['type']['qualType']
        rts = rt[:rt.find('(')].strip()
        f.ret = self.tm.c(rts)
        if rts.endswith('&') and self.ret_by_value_decl(d, rts):
            f.ret = f.ret.rstrip(' *').rstrip()      # `const T&` results are returned by value, as for extracted functions
        if d['kind'] == 'CXXConstructorDecl':
            f.ret = 'void'
        if d['kind'] in ('CXXMethodDecl', 'CXXConstructorDecl', 'CXXConversionDecl') and d.get('storageClass') != 'static':
            st = self.method_self_type(d)
            if st is None:
                raise ExtractError('cannot find the class of extern method ' + f.qual)
            f.self_type = st
            f.params.append((st + ' *', 'self', True))
        for pd in d.get('inner', []):
            if pd.get('kind') != 'ParmVarDecl':
                continue
            qt = pd['type']['qualType']
            name = pd.get('name') or 'verif_unnamed%d' % len(f.params)
            if self.by_pointer(qt):
                f.params.append((self.tm.tname(pd['type']), name, True))
            else:
                f.params.append((self.tm.tname(pd['type']).rstrip(' *') if qt.rstrip().endswith('&') else self.tm.tname(pd['type']), name, False))
        f.text = None
        self.cur = None
        return f

    def loop_nodes(self, d):
        out = []
        for x in walk(d):
            k = x.get('kind')
            if k in ('ForStmt', 'WhileStmt', 'CXXForRangeStmt'):
                out.append(x)
            elif k == 'DoStmt':
                c = [y for y in x.get('inner', []) if y][-1]
                if not (c.get('kind') == 'CXXBoolLiteralExpr' and not c['value']):
                    out.append(x)
        return out

    def slice_function(self, d, cname, spec, exports):
        """a REGION of a large function as a function of its own: `loop K from decl:<var> to assign:<member>`.
        The region's free variables become parameters (by address if written or non-scalar); the listed
        locals declared inside the region become out-parameters."""
        m = re.fullmatch(r'from (?:decl|block):(\w+)(?:#(\d+))? to (?:assign|call|kind):(\w+)', spec.strip())
        to_call = ' to call:' in spec
        to_kind = ' to kind:' in spec        # `to kind:WhileStmt`: up to and including the first statement of that AST kind
        from_block_start = spec.strip().startswith('from block:')
        if not m:
            raise ExtractError('bad slice description: ' + spec)
        v0, occ, m1 = m.group(1), int(m.group(2) or 0), m.group(3)
        # the compound statement that directly contains the occ-th declaration of v0
        found = []
        for x in walk(d):
            if x.get('kind') == 'CompoundStmt':
                for st in x.get('inner', []):
                    if st and st.get('kind') == 'DeclStmt' and any(v.get('name') == v0 for v in st.get('inner', [])):
                        found.append(x)
        if occ >= len(found):
            raise ExtractError('%s: slice anchor decl:%s#%d not found (the code was restructured)' % (cname, v0, occ))
        body = found[occ]
        stmts = [x for x in body.get('inner', []) if x]
        i0 = i1 = None
        for i, st in enumerate(stmts):
            if i0 is None and st.get('kind') == 'DeclStmt' and any(v.get('name') == v0 for v in st.get('inner', [])):
                i0 = i
            x = st
            while x.get('kind') in ('ExprWithCleanups',) and x.get('inner'):
                x = x['inner'][0]
            if to_kind:
                if i0 is not None and i1 is None and x.get('kind') == m1:
                    i1 = i
            elif to_call:
                for y in walk(x):
                    if y.get('kind') in ('CallExpr', 'CXXMemberCallExpr'):
                        rf, _ = self.callee_decl(y['inner'][0])
                        if rf and rf.get('name') == m1:
                            i1 = i
            elif (x.get('kind') == 'BinaryOperator' and x.get('opcode') == '=') or x.get('kind') == 'CompoundAssignOperator':
                lhs = x['inner'][0]
                if (lhs.get('kind') == 'MemberExpr' and lhs.get('name') == m1) or \
                        (lhs.get('kind') == 'DeclRefExpr' and lhs['referencedDecl'].get('name') == m1):
                    i1 = i
        if i0 is not None and from_block_start:
            i0 = 0          # `from block:<v>`: the region starts with the block that declares <v>
        if i0 is None or i1 is None or i1 < i0:
            raise ExtractError('%s: slice anchors decl:%s / assign:%s not found (the code was restructured)' % (cname, v0, m1))
        region = stmts[i0:i1 + 1]
        f = CFunc()
        self.cur = f
        f.cname, f.qual = cname, (d.get('_qual', d.get('name')) + ' [slice %s]' % spec)
        f.file = d['loc'].get('_file')
        f.line = region[0].get('range', {}).get('begin', {}).get('_line')
        src = b''.join(self.db.source_bytes(x) or b'' for x in region)
        f.sha = hashlib.sha256(src).hexdigest()
        self.locals, self.ref_locals, self.alias = {}, set(), {}
        self.used_names = {'self'}
        self.lines, self.ind, self.brk = [], 0, []
        self.called = False
        self.pre, self.no_hoist = [], False
        self.post = []
        self.ghost_used = set()
        self.exported = {}
        self.cur_body = d
        self.builder_ids = set()
        self.lambdas = {}
        self.var_types = {}
        self.cur_record = None
        self.ret_is_ref = False
        f.ret = 'void'
        declared = {}
        for st in region:
            for x in walk(st):
                if x.get('kind') in ('VarDecl', 'BindingDecl'):
                    declared[x['id']] = x
        fn_locals = {x['id']: x for x in walk(d) if x.get('kind') in ('VarDecl', 'ParmVarDecl')}
        free, written = [], set()
        uses_this = False
        for st in region:
            for x in walk(st):
                if x.get('kind') == 'CXXThisExpr':
                    uses_this = True
                if x.get('kind') == 'DeclRefExpr':
                    rid = x['referencedDecl']['id']
                    if rid in fn_locals and rid not in declared and rid not in free:
                        free.append(rid)
                if x.get('kind') in ('BinaryOperator', 'CompoundAssignOperator') and \
                        (x.get('opcode') == '=' or x['kind'] == 'CompoundAssignOperator'):
                    for y in walk(x['inner'][0]):
                        if y.get('kind') == 'DeclRefExpr':
                            written.add(y['referencedDecl']['id'])
                            break
                if x.get('kind') == 'UnaryOperator' and x.get('opcode') in ('++', '--'):
                    for y in walk(x['inner'][0]):
                        if y.get('kind') == 'DeclRefExpr':
                            written.add(y['referencedDecl']['id'])
                            break
        if uses_this:
            self.cur_record = self.class_of(d)
            st_ = self.method_self_type(d)
            if st_ is None:
                raise ExtractError('%s: slice uses `this` of an unknown class' % cname)
            f.self_type = st_
            f.params.append((st_ + ' *', 'self', True))
            self.var_types['self'] = st_ + ' *'
        const_defs, const_params = [], []
        for rid in free:
            v = fn_locals[rid]
            name = v['name']
            self.used_names.add(name)
            self.locals[rid] = name
            ct = self.tm.tname(v['type'])
            init = [x for x in v.get('inner', []) if x and is_expr(x)]
            if v.get('kind') == 'VarDecl' and 'const' in v['type']['qualType'] and init and rid not in written and \
                    all(y.get('kind') in ('FloatingLiteral', 'IntegerLiteral', 'ImplicitCastExpr', 'ParenExpr',
                                          'BinaryOperator', 'UnaryOperator', 'ExprWithCleanups') for y in walk(init[-1])):
                # a constant of the enclosing function: carried into the slice with its own initialiser
                cb = ct.rstrip(' *').rstrip()
                const_defs.append('%s %s = %s; *verif_c_%s = %s;' % (cb, name, self.e(init[-1]), name, name))
                const_params.append((cb + ' *', 'verif_c_' + name, True))
                continue
            base = ct.rstrip(' *').rstrip()
            if base in SCALAR_C and rid not in written and base != 'c_opaque':
                f.params.append((base, name, False))
            else:
                self.ref_locals.add(rid)
                f.params.append((base + ' *', name, True))
        for nm in exports:
            cands = [v for v in declared.values() if v.get('name') == nm]
            if len(cands) != 1:
                raise ExtractError('%s: exported local %s not declared exactly once in the slice' % (cname, nm))
            v = cands[0]
            self.exported[v['id']] = nm
            self.used_names.add(nm)
            f.params.append((self.ty(v) + ' *', nm, True))
        f.params += const_params
        self.drop_ids, self.sinks = self.droppable_strings(body)
        self.out('{')
        self.ind += 1
        for cd in const_defs:
            self.out(cd)
        for st in region:
            self.s(st)
        self.ind -= 1
        self.out('}')
        if uses_this and not re.search(r'\bself\b', '\n'.join(self.lines)):
            # `this` only reached unmodelled (opaque) members whose effects are not translated: no object parameter
            f.params = [p for p in f.params if p[1] != 'self']
            f.self_type = None
        f.text = f.proto() + '\n' + '\n'.join(self.lines) + '\n'
        self.cur = None
        return f

    def ret_by_value(self, rts):
        """functions returning `const T&` for scalar T are translated as returning T (the referent is
        read at the call; callers that bind the result to a reference re-evaluate the call)"""
        if not rts.endswith('&'):
            return False
        b = rts[:-1].strip()
        if strip_cv(b) == b:
            return False
        try:
            ct = self.tm.c(b)
            # const T& results are returned by value for scalars and for modelled aggregates (a pointer into an
            # unbounded SMT array cannot be formed); callers re-evaluate the call where they bind a reference
            return ct in SCALAR_C or ct in self.tm.kinds
        except ExtractError:
            return False

    def _desugar_ret(self, d, rts):
        # return statements carry the desugared type; fall back to the spelled one
        for x in walk(d):
            if x.get('kind') == 'ReturnStmt' and x.get('inner'):
                t = x['inner'][0].get('type', {})
                if not rts.endswith('&') and 'desugaredQualType' in t and strip_cv(t.get('qualType', '')) == strip_cv(rts):
                    return t['desugaredQualType']
                break
        return rts

    # ================================================================== unit emission
    def emit_globals(self):
        return '\n'.join(self.globals[g] for g in self.global_order) + '\n'

    def emit_global_arrays(self):
        out = [t for t, _, _ in self.global_arrays.values()]
        reals = [g for g, (_, ect, _) in self.global_arrays.items() if ect == 'real_t']
        if reals:
            out.append('enum { TAB_NONE = 0, %s, TAB_END };\n#define TAB_VALID(t) ((t) > TAB_NONE && (t) < TAB_END)' % ', '.join('TAB_%s' % g for g in reals))
            out.append('#ifdef VERIF_TABLES_UF\n/* table contents abstracted: an uninterpreted function of (table, index) -- for obligations that do not depend on them */\nreal_t __CPROVER_uninterpreted_tab_at(c_tabid, c_long);\n#define verif_tab_at(t, i) __CPROVER_uninterpreted_tab_at(t, i)\n#else')
            out.append('static real_t verif_tab_at(c_tabid t, c_long i)\n{\n    switch (t) {')
            for g in reals:
                out.append('    case TAB_%s: return %s(i);' % (g, g))
            out.append('    default: __CPROVER_assert(0, "table pointer refers to a known constant table"); { real_t verif_u; return verif_u; }')
            out.append('    }\n}\n#endif')
        for j, v in enumerate(self.strlits):
            lit = v.strip('"')
            nm = lit if re.fullmatch(r'[A-Za-z0-9_]+', lit) else 'X' + lit.encode().hex()
            out.append('#define STR_%s %d' % (nm, j + 1))
        return '\n'.join(out) + '\n'

    def emit_helpers(self):
        out = []
        if 'v_substr' in self.helpers:
            out.append('''/* std::string(_view)::substr(pos, n): ASSUMED library contract (a macro: CBMC cannot pass unbounded arrays by value) */
#define v_substr(verif_s, verif_pos0, verif_n0) ({ \\
    c_ulong verif_pos = (verif_pos0), verif_n = (verif_n0); \\
    VERIF_OBL(verif_pos <= (verif_s).size, "substr: pos <= size() (std::out_of_range otherwise)"); \\
    struct vec_char verif_r; c_ulong verif_len = (verif_s).size - verif_pos; \\
    if (verif_n < verif_len) verif_len = verif_n; \\
    __CPROVER_assume(verif_r.size == verif_len); \\
    __CPROVER_assume(__CPROVER_forall { c_ulong verif_k; (verif_k < verif_len) ==> verif_r.data[verif_k] == (verif_s).data[verif_pos + verif_k] }); \\
    verif_r; })''')
        return '\n'.join(out) + '\n'

    def emit_opaque(self):
        out = []
        for cn, (rt, ats, q) in sorted(self.opaque_decls.items()):
            out.append('DECL_OPAQUE%d(%s, %s%s) /* %s */' % (
                len(ats), rt, cn, ''.join(', ' + a for a in ats), q))
        return '\n'.join(out) + '\n'
