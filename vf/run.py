"""Runs cbmc on generated harness files and parses the per-obligation results."""
import os
import re
import subprocess
import time
import resource
import signal

VERIF = os.path.dirname(os.path.dirname(os.path.abspath(__file__)))
STUBS = os.path.join(VERIF, 'stubs')
MEM_KB = 12 * 1024 * 1024

RESULT_RE = re.compile(r'^\[([^\]]+)\] (?:line (\d+) )?(.*): (SUCCESS|FAILURE|UNKNOWN|ERROR)$')
BAD_LOG = re.compile(r'ignoring|Parse Error|invariant violation|Invariant check failed|TODO|unsupported|'
                     r'warning: .*no body for function|SMT2 solver returned error|error:|unexpected|is not declared', re.I)
OK_LOG = re.compile(r'no body for function (__CPROVER_uninterpreted_\w+|harness)|'
                    r'warning: ignoring asm|function .__CPROVER_\w+. is not declared|'
                    r'\*\*\*\* WARNING: no body for function __CPROVER_uninterpreted', re.I)


class JobResult:
    def __init__(self, job):
        self.job = job
        self.obligations = []      # (id, line, desc, status)
        self.status = 'undecided'  # ok | failed | undecided
        self.reason = ''
        self.seconds = 0.0
        self.cmd = ''
        self.log = ''
        self.trace = ''
        self.failed = []           # obligations refuted


def cbmc_cmd(job, trace=False, props=()):
    sat = job.mode in ('BV', 'BVN', 'BVU')
    cmd = ['cbmc', job.path, '--function', 'harness', '-I', STUBS, '--no-standard-checks']
    if job.mode == 'BVU':
        # undefined behaviour only (C20): no wrap-around / narrowing checks, which are defined behaviour
        cmd += ['--bounds-check', '--pointer-check', '--div-by-zero-check', '--signed-overflow-check', '--pointer-overflow-check',
                '--float-overflow-check' if False else '--undefined-shift-check']
    elif sat:
        cmd += ['--bounds-check', '--pointer-check', '--div-by-zero-check', '--signed-overflow-check',
                '--unsigned-overflow-check', '--conversion-check', '--pointer-overflow-check']
    else:
        cmd += ['--z3'] + ([] if trace else ['--slice-formula'])
    cmd += job.flags
    if trace:
        cmd += ['--trace']
    for p in props:
        cmd += ['--property', p]
    return cmd


def _limits():
    resource.setrlimit(resource.RLIMIT_AS, (MEM_KB * 1024, MEM_KB * 1024))


def _limits_session():
    os.setsid()
    _limits()


def run_cmd(cmd, env, timeout):
    """run with a timeout that kills the whole process group (cbmc AND its solver child)"""
    p = subprocess.Popen(cmd, stdout=subprocess.PIPE, stderr=subprocess.STDOUT, env=env, preexec_fn=_limits_session)
    try:
        out, _ = p.communicate(timeout=timeout)
    except subprocess.TimeoutExpired:
        try:
            os.killpg(p.pid, signal.SIGKILL)
        except ProcessLookupError:
            pass
        out, _ = p.communicate()
        e = subprocess.TimeoutExpired(cmd, timeout)
        e.stdout = out
        raise e

    class R:
        pass
    r = R()
    r.stdout, r.returncode = out, p.returncode
    return r


def run_job(job, trace_on_fail=True):
    r = JobResult(job)
    env = dict(os.environ)
    env['PATH'] = os.path.join(VERIF, 'bin') + ':' + env['PATH']
    # solver input files of queries that are killed on timeout would otherwise pile up in /tmp
    tmpd = os.path.join(os.path.dirname(job.path), 'tmp')
    os.makedirs(tmpd, exist_ok=True)
    env['TMPDIR'] = tmpd
    cmd = cbmc_cmd(job)
    r.cmd = ' '.join(cmd)
    t0 = time.time()
    if getattr(job, 'split_first', False) and job.mode in ('SA', 'SAI'):
        # one query per obligation from the start (spec option `split`): the conjunction of all obligations of this
        # function is much harder for the solver than each obligation on its own formula slice
        return split_run(job, r, env, t0)
    try:
        p = run_cmd(cmd, env, job.timeout)
        out = p.stdout.decode(errors='replace')
        rc = p.returncode
    except subprocess.TimeoutExpired as e:
        if job.mode in ('SA', 'SAI') and not getattr(job, 'nosplit', False):
            return split_run(job, r, env, t0)
        r.seconds = time.time() - t0
        r.reason = 'timeout after %ds' % job.timeout
        r.log = (e.stdout or b'').decode(errors='replace')[-3000:]
        return r
    r.seconds = time.time() - t0
    r.log = out
    parse(r, out, rc)
    if r.status == 'failed' and trace_on_fail:
        try:
            # counterexamples: unsliced formula (so that all inputs appear), only the refuted obligations
            p = run_cmd(cbmc_cmd(job, trace=True, props=[f[0] for f in r.failed[:4]]), env, job.timeout * 2)
            r.trace = p.stdout.decode(errors='replace')
        except subprocess.TimeoutExpired:
            r.trace = ''
    return r


def split_run(job, r, env, t0):
    """fallback after a timeout: one solver query per obligation, each on its own formula slice"""
    p = run_cmd(cbmc_cmd(job) + ['--show-properties'], env, 120)
    ids = re.findall(r'^Property ([\w.$-]+):', p.stdout.decode(errors='replace'), re.M)
    if not ids:
        r.seconds = time.time() - t0
        o = p.stdout.decode(errors='replace')
        if p.returncode not in (0, 10) and ('ERROR' in o or 'rror' in o):
            r.reason = 'cbmc exit %d: %s' % (p.returncode, ' | '.join(o.strip().split('\n')[-3:]))
        else:
            r.reason = 'timeout after %ds (and no property list for the per-obligation fallback)' % job.timeout
        return r
    per = job.timeout if getattr(job, 'split_first', False) else max(job.timeout, 150)

    def one(pid):
        try:
            q = run_cmd(cbmc_cmd(job) + ['--property', pid], env, per)
        except subprocess.TimeoutExpired:
            return pid, None, 'timeout after %ds, and obligation %s alone also exceeds %ds' % (job.timeout, pid, per)
        o = q.stdout.decode(errors='replace')
        if q.returncode not in (0, 10):
            return pid, o, 'cbmc exit %d on obligation %s' % (q.returncode, pid)
        return pid, o, None
    import concurrent.futures as cf
    outs = []
    with cf.ThreadPoolExecutor(max_workers=6) as ex:
        for pid, o, err in ex.map(one, ids):
            if err and not r.reason:
                r.reason = err
                r.log = o or ''
            outs.append(o or '')
    if r.reason:
        r.seconds = time.time() - t0
        return r
    r.seconds = time.time() - t0
    r.cmd += '   [per-obligation fallback: --property <id> for each of %d obligations]' % len(ids)
    r.log = '\n'.join(outs)
    parse(r, r.log, 0)
    return r


def parse(r, out, rc):
    job = r.job
    for ln in out.split('\n'):
        m = RESULT_RE.match(ln.strip())
        if m:
            r.obligations.append((m.group(1), m.group(2), m.group(3), m.group(4)))
    bad = [ln for ln in out.split('\n') if BAD_LOG.search(ln) and not OK_LOG.search(ln)
           and not RESULT_RE.match(ln.strip())]
    if rc not in (0, 10) or not r.obligations:
        r.reason = 'cbmc exit %d: %s' % (rc, ' | '.join(out.strip().split('\n')[-4:]))
        return
    if bad:
        r.reason = 'suspicious solver/log output: ' + ' | '.join(bad[:3])
        return
    seen_reach = set()
    failed = []
    unknown = []
    for oid, line, desc, st in r.obligations:
        if desc in job.expect_fail:
            seen_reach.add(desc)
            if st != 'FAILURE':
                r.reason = 'vacuity: reach witness %r did not fail (contradictory assumptions?)' % desc
                return
            continue
        if st == 'FAILURE':
            failed.append((oid, line, desc))
        elif st != 'SUCCESS':
            unknown.append(desc)
    if seen_reach != job.expect_fail:
        r.reason = 'vacuity: reach witness missing %s' % (job.expect_fail - seen_reach)
        return
    if unknown and not failed:
        r.reason = 'obligation %s: UNKNOWN' % unknown[0]
        return
    r.failed = failed
    r.status = 'failed' if failed else 'ok'


def trace_inputs(trace, prop_id=None, limit=200):
    """initial values of the harness inputs from a plain-text --trace.  The trace of the given
    property id is used (cbmc prints one trace per failed property)."""
    sections = re.split(r'(?m)^Trace for ([^\n:]+):\s*$', trace)
    body = trace
    if len(sections) > 1:
        pairs = list(zip(sections[1::2], sections[2::2]))
        body = pairs[0][1]
        for pid, txt in pairs:
            if prop_id and pid.strip() == prop_id:
                body = txt
                break
    vals = []
    seen = set()
    cur_fn = None
    for ln in body.split('\n'):
        m = re.match(r'^State \d+ file \S+ function (\w+) line (\d+)', ln)
        if m:
            cur_fn = m.group(1)
            continue
        if cur_fn != 'harness':
            continue
        m = re.match(r'^\s+([A-Za-z_][\w.\[\]>-]*(?:\[[^\]]*\])*)=(-?[\d./eE+-]+|TRUE|FALSE)[a-zA-Z]*(?: \(.*\))?\s*$', ln)
        if not m:
            continue
        lhs, val = m.group(1), m.group(2)
        if lhs.startswith(('verif_ret', 'return_value', 'verif_old', 'verif_fr_', 'verif_thrown', 'verif_rv')):
            continue
        if lhs in seen:
            continue
        seen.add(lhs)
        vals.append('%s=%s' % (lhs, val))
    return vals[:limit]
