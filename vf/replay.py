"""Replay of verifier counterexamples against the real code.

For a refuted obligation the harness inputs are read from CBMC's plain-text trace and written
to replay/out/<prop>-<obligation>.json together with the verifier output.  If a native driver
exists for the unit (replay/drivers/<prop>_<unit>.cpp, compiled against /repo's CURRENT
sources, not the extracted text) it is run on those inputs and must reproduce the failure;
otherwise the VIOLATION line ends with no-failing-input-found."""
import json
import os
import re
import subprocess
from .run import trace_inputs

VERIF = os.path.dirname(os.path.dirname(os.path.abspath(__file__)))
REPO = os.environ.get('VERIF_REPO', '/repo')
OUT = os.path.join(VERIF, 'replay', 'out' + os.environ.get('VERIF_SUBDIR', ''))

CXX = ('g++ -std=c++17 -O1 -DHAVE_CONFIG_H=1 -I{repo} -I{repo}/_build -I{repo}/_build/include -I/usr/include/cjson '
       '-isystem /root/miniconda/include -fopenmp -w')
LINK = ('-L{repo}/_build/lib -lopmcommon -L/root/miniconda/lib -lfmt -lboost_system -lcjson '
        '-Wl,-rpath,/root/miniconda/lib')


def driver_source(prop, unit):
    for cand in (unit, unit.split('_')[0], re.sub(r'\d+$', '', unit)):
        src = os.path.join(VERIF, 'replay', 'drivers', '%s_%s.cpp' % (prop, cand))
        if os.path.exists(src):
            return src
    return None


def build_driver(prop, unit):
    src = os.path.join(VERIF, 'replay', 'drivers', '%s_%s.cpp' % (prop, unit))
    if not os.path.exists(src) and '_' in unit:
        src = os.path.join(VERIF, 'replay', 'drivers', '%s_%s.cpp' % (prop, unit.split('_')[0]))
    if not os.path.exists(src):
        src = os.path.join(VERIF, 'replay', 'drivers', '%s_%s.cpp' % (prop, re.sub(r'\d+$', '', unit)))
    if not os.path.exists(src):
        return None, 'no native driver for unit %s' % unit
    exe = os.path.join(VERIF, '.work', prop + os.environ.get('VERIF_SUBDIR', ''), 'replay_%s' % unit)
    os.makedirs(os.path.dirname(exe), exist_ok=True)
    # the translation units under test are compiled from /repo's CURRENT sources and take precedence over
    # the baseline library, which only supplies everything else
    srcs = []
    for ln in open(src):
        m = re.match(r'//\s*REPLAY_SOURCES:\s*(.*)', ln)
        if m:
            srcs += [os.path.join(REPO, x) for x in m.group(1).split()]
    cmd = CXX.format(repo=REPO).split() + ['-I', os.path.dirname(src), src] + srcs + ['-o', exe] + LINK.format(repo=REPO).split()
    p = subprocess.run(cmd, stdout=subprocess.PIPE, stderr=subprocess.STDOUT)
    if p.returncode != 0:
        return None, 'driver build failed: ' + p.stdout.decode(errors='replace')[-1500:]
    return exe, ''


def parse_value(s):
    s = s.strip()
    m = re.match(r'^(-?\d+)/(-?\d+)$', s)
    if m:
        return int(m.group(1)) / int(m.group(2))
    try:
        return int(s.rstrip('ulUL'))
    except ValueError:
        pass
    try:
        return float(s.rstrip('fF'))
    except ValueError:
        return s


def inputs_dict(inputs):
    d = {}
    for ln in inputs:
        if '=' not in ln:
            continue
        k, v = ln.split('=', 1)
        d[k.strip()] = parse_value(v)
    return d


def write_replay(prop, r, oid, line, desc, oname, builders):
    os.makedirs(OUT, exist_ok=True)
    inputs = trace_inputs(r.trace, oid) if r.trace else []
    path = os.path.join(OUT, '%s-%s.json' % (prop, re.sub(r'[^A-Za-z0-9_.-]+', '_', oname)))
    rec = {
        'property': prop, 'obligation': oname, 'cbmc_id': oid, 'harness_file': r.job.path, 'line': line,
        'description': desc, 'unit': r.job.unit, 'job': r.job.name, 'verifier_cmd': r.cmd,
        'inputs': inputs, 'input_values': inputs_dict(inputs),
        'verifier_output': [l for l in r.log.split('\n') if 'FAILURE' in l or 'VERIFICATION' in l][:40],
        'trace_tail': r.trace.split('\n')[-80:] if r.trace else [],
        'reproduced_on_real_code': False, 'native': '',
    }
    reproduced = False
    exe, why = build_driver(prop, r.job.unit)
    # a driver marked REPLAY_SEARCH does not decode the model: it searches the real code for a failing input itself
    searches = bool(exe) and 'REPLAY_SEARCH' in open(driver_source(prop, r.job.unit)).read()
    if exe and (inputs or r.job.kind == 'coverage' or searches):
        with open(path, 'w') as f:
            json.dump(rec, f, indent=1)
        kv = write_kv(path, rec)
        p = subprocess.run([exe, kv, desc, r.job.unit], stdout=subprocess.PIPE, stderr=subprocess.STDOUT, timeout=120)
        rec['native'] = p.stdout.decode(errors='replace')[-2000:]
        reproduced = (p.returncode == 1)       # driver convention: 1 = failure reproduced, 0 = not reproduced
    else:
        rec['native'] = why or 'verifier gave no usable model'
    rec['reproduced_on_real_code'] = reproduced
    if not reproduced:
        rec['note'] = 'no-failing-input-found: obligation %s is refuted by the verifier; see verifier_output' % oname
    with open(path, 'w') as f:
        json.dump(rec, f, indent=1)
    return path, reproduced


def native_search(prop, unit, reasons):
    """Bounded stand-in when the proof of a unit is undecided: run the unit's REPLAY_SEARCH driver (it checks the unit's
    contract on the real code over a finite, stated input set).  Returns (replay path, text) when the real code fails."""
    src = driver_source(prop, unit)
    if not src or 'REPLAY_SEARCH' not in open(src).read():
        return None, ''
    exe, why = build_driver(prop, unit)
    if not exe:
        return None, why
    try:
        p = subprocess.run([exe, '/dev/null', 'bounded_native_search', unit], stdout=subprocess.PIPE, stderr=subprocess.STDOUT, timeout=300)
    except subprocess.TimeoutExpired:
        return None, 'native search timed out'
    if p.returncode != 1:
        return None, ''
    os.makedirs(OUT, exist_ok=True)
    path = os.path.join(OUT, '%s-%s_bounded_native_search.json' % (prop, unit))
    out = p.stdout.decode(errors='replace')[-3000:]
    rec = {'property': prop, 'obligation': '%s/bounded_native_search' % unit, 'unit': unit, 'description': 'bounded_native_search',
           'level': 'bounded (native search of the real code; the deductive proof of this unit was undecided)',
           'verifier_output': reasons, 'inputs': [], 'input_values': {}, 'native': out, 'reproduced_on_real_code': True}
    with open(path, 'w') as f:
        json.dump(rec, f, indent=1)
    return path, out.strip().split('\n')[-1]


def write_kv(path, rec):
    kv = path[:-5] + '.kv'
    with open(kv, 'w') as f:
        for k, v in rec['input_values'].items():
            f.write('%s %s\n' % (k.replace(' ', ''), repr(float(v)) if isinstance(v, float) else v))
    return kv


def replay_file(path):
    rec = json.load(open(path))
    exe, why = build_driver(rec['property'], rec['unit'])
    if not exe:
        print('replay: %s; obligation %s; verifier output follows' % (why, rec['obligation']))
        print('\n'.join(rec.get('verifier_output', [])))
        return 1
    p = subprocess.run([exe, write_kv(path, rec), rec['description'], rec['unit']])
    return p.returncode
