"""Turns a parsed .spec unit into CBMC harness files: mechanical extraction (opm2c) +
source-level contract instrumentation (enforce / replace / loop contracts / frame)."""
import os
import re
import hashlib
from opm2c.astdb import AstDB, ExtractError, REPO, WORK
from opm2c.translate import Translator
from opm2c.ctypes_map import TypeMap, SCALAR_C


class Job:
    """one cbmc run"""
    def __init__(self, unit, name, kind, mode, path, flags, timeout):
        self.unit, self.name, self.kind, self.mode = unit, name, kind, mode
        self.path, self.flags, self.timeout = path, flags, timeout
        self.expect_fail = set()      # obligation descriptions that must FAIL (reach witnesses)
        self.target = None


class Built:
    def __init__(self):
        self.jobs = []
        self.funcs = {}       # cname -> CFunc
        self.fnspecs = {}
        self.dropped = []
        self.opaque = []
        self.stubs = set()
        self.globals = []


def subst(expr, ret='verif_ret', f=None):
    expr = expr.replace('\\result', ret).replace('\\thrown', 'verif_thrown')
    if f is not None and '$' in expr:
        # $param: the parameter OBJECT, whether the code takes it by value or by reference
        refs = {n: r for _, n, r in f.params}
        def rep(m):
            n = m.group(1)
            if n not in refs:
                raise ExtractError('%s: contract mentions $%s but the function has no such parameter (renamed?)' % (f.qual, n))
            return '(*%s)' % n if refs[n] else n
        expr = re.sub(r'\$(\w+)', rep, expr)
    expr = re.sub(r'<==>', '==', expr)
    # a ==> b  (right associative, lowest precedence): handled by the IMPLIES macro instead
    return expr


def find_olds(expr):
    """returns list of (full text '\\old(...)', inner)"""
    out = []
    i = 0
    while True:
        j = expr.find('\\old(', i)
        if j < 0:
            break
        d = 0
        k = j + 4
        while k < len(expr):
            if expr[k] == '(':
                d += 1
            elif expr[k] == ')':
                d -= 1
                if d == 0:
                    break
            k += 1
        out.append((expr[j:k + 1], expr[j + 5:k]))
        i = k + 1
    return out


class Builder:
    def __init__(self, unit, prop, workdir, extra_inc=()):
        self.u = unit
        self.prop = prop
        self.wd = workdir
        os.makedirs(workdir, exist_ok=True)
        self.extra_inc = list(extra_inc)

    # ------------------------------------------------------------------ extraction
    def extract(self):
        u = self.u
        src = os.path.join(REPO, u.tu) if not u.driver else self._driver_tu()
        self.db = AstDB(src, u.filter or ['Opm::'], extra_inc=self.extra_inc)
        tm = TypeMap(u.typemap)
        for sname, flds in u.structs:
            tm.add_record(sname, flds)
        fns = {}
        decls = {}
        for fs in u.functions:
            cands = self.db.functions(fs.qual, fs.sig, need_body=('extern' not in fs.opts))
            # several identical dumps of one definition collapse by mangled name
            by_m = {}
            for c in cands:
                by_m.setdefault(c.get('mangledName'), c)
            if len(by_m) != 1:
                raise ExtractError('%s: %d definitions match %s%s: %s' % (
                    u.name, len(by_m), fs.qual, ' sig=' + fs.sig if fs.sig else '',
                    [c.get('_qual') for c in by_m.values()][:6]))
            d = list(by_m.values())[0]
            if not fs.slice:
                fns[d['mangledName']] = fs.cname
            decls[fs.cname] = d
        loops = {}
        ghosts = {}
        for fs in u.functions:
            for k, L in fs.loops.items():
                loops[(fs.cname, k)] = {'invariant': [(n, subst(e)) for n, e in L['invariant']],
                                        'assigns': L['assigns'], 'decreases': L['decreases']}
            for a, t in fs.ghosts.items():
                ghosts[(fs.cname, a)] = t
        tr = Translator(self.db, tm, fns=fns, loops=loops, ghosts=ghosts, opaque=u.opaque,
                        lib=u.lib, records=u.records)
        tr.ctor_decls = {cn: d for cn, d in decls.items() if d['kind'] == 'CXXConstructorDecl'}
        tr.instantiate = list(u.instantiate)
        tr.abstract_mul = getattr(u, 'abstract_mul', False)
        tr.lib_rx = [(re.compile(k[1:]), v) for k, v in u.lib.items() if k.startswith('~')]
        for g in u.globals:
            self.b_globals = getattr(self, 'b_globals', {})
            self.b_globals[g] = tr.global_by_name(g)
        self.tr = tr
        # @enum <name>: the enumerators of a /repo enum as macros <name>_<enumerator> (values read from the AST, so the
        # contract text never hard-codes them)
        if u.enums and not getattr(u, '_enums_done', False):
            lines = []
            for en in u.enums:
                short = en.split('::')[-1]
                edecls = [n for n in self.db.byid.values() if n.get('kind') == 'EnumDecl' and n.get('name') == short
                          and any(k.get('kind') == 'EnumConstantDecl' for k in n.get('inner', []))]
                if not edecls:
                    raise ExtractError('%s: enum %s not found' % (u.name, en))
                for k in edecls[0]['inner']:
                    if k.get('kind') == 'EnumConstantDecl':
                        v = tr.enum_value({'id': k['id'], 'name': k['name']})
                        lines.append('#define %s_%s (%s)' % (short, k['name'], v.split()[0]))
            u.prelude = '\n'.join(lines) + '\n' + (u.prelude or '')
            u._enums_done = True
        b = Built()
        for fs in u.functions:
            if 'extern' in fs.opts:
                f = tr.proto_only(decls[fs.cname], fs.cname)
            elif fs.slice:
                f = tr.slice_function(decls[fs.cname], fs.cname, fs.slice, fs.exports)
            else:
                f = tr.function(decls[fs.cname], fs.cname)
            b.funcs[fs.cname] = f
            b.fnspecs[fs.cname] = fs
            for k in fs.loops:
                if k >= len(f.loops):
                    # the function has fewer loops than the contract file expects (its loop structure changed): the
                    # surplus loop contract is simply unused -- it adds no assumption; the remaining obligations decide
                    b.dropped.append((fs.cname, 'loop contract for loop %d is unused: the function has %d loops' % (k, len(f.loops)), f.line))
            b.dropped += [(fs.cname,) + tuple(x) for x in f.dropped]
            b.stubs |= f.stubs
        b.opaque = sorted(tr.opaque_decls)
        self.b = b
        return b

    def _driver_tu(self):
        p = os.path.join(self.wd, 'driver_%s.cpp' % self.u.name)
        with open(p, 'w') as f:
            f.write(self.u.driver)
        return p

    # ------------------------------------------------------------------ code generation
    def header(self, mode, extra_defs=()):
        u = self.u
        out = ['/* GENERATED by /verif/check from %s and the AST of %s -- do not edit */' % (
            os.path.relpath(u.path, os.path.dirname(os.path.dirname(u.path))), u.tu)]
        out.append('#define VERIF_MODE_%s 1' % {'SA': 'SA', 'SAI': 'SAI', 'BV': 'BV', 'BVN': 'BV', 'BVU': 'BV'}[mode])
        if mode == 'BVN':
            out.append('#define VERIF_NONNEG_DIV 1')
        out += list(extra_defs)
        pre_defs = re.findall(r'(?m)^#define (?:INT_TO_REAL|REAL_TO_INT)\b.*$', u.prelude)
        out += pre_defs
        out.append('#include "prelude.h"')
        for inc in u.includes:
            out.append('#include "%s"' % inc)
        return '\n'.join(out) + '\n'

    def common(self):
        tr = self.tr
        out = [tr.tm.emit(), tr.emit_helpers(), tr.emit_globals(), tr.emit_opaque()]
        pre = re.sub(r'(?m)^#define (?:INT_TO_REAL|REAL_TO_INT)\b.*$', '', self.u.prelude)
        out.append('#define IMPLIES(a, b) (!(a) || (b))\n')
        out.append(pre)
        for cn, f in self.b.funcs.items():
            out.append('static ' + f.proto() + ';')
        out.append(tr.emit_global_arrays())
        return '\n'.join(out) + '\n'

    def eq(self, ct, a, b, ghost):
        """text of 'a == b' for C type ct; ghost: list collecting needed nondet index decls"""
        kinds = self.tr.tm.kinds
        if ct in SCALAR_C or ct.endswith('*'):
            return '(%s == %s)' % (a, b)
        k = kinds.get(ct)
        if not k:
            raise ExtractError('frame: cannot compare objects of type ' + ct)
        if k[0] == 'vec':
            g = 'verif_fk%d' % len(ghost)
            ghost.append('c_ulong %s;' % g)
            return '(%s.size == %s.size && (%s >= %s.size || %s))' % (
                a, b, g, a, self.eq(k[1], '%s.data[%s]' % (a, g), '%s.data[%s]' % (b, g), ghost))
        if k[0] == 'arr':
            return '(' + ' && '.join(self.eq(k[1], '%s.a[%d]' % (a, i), '%s.a[%d]' % (b, i), ghost)
                                     for i in range(k[2])) + ')'
        if k[0] == 'tup':
            return '(' + ' && '.join(self.eq(t, '%s._%d' % (a, i), '%s._%d' % (b, i), ghost)
                                     for i, t in enumerate(k[1])) + ')'
        if k[0] == 'opt':
            return '(%s.has == %s.has && (!%s.has || %s))' % (a, b, a, self.eq(k[1], a + '.val', b + '.val', ghost))
        if k[0] == 'rec':
            return '(' + (' && '.join(self.eq(t, '%s.%s' % (a, n), '%s.%s' % (b, n), ghost)
                                      for t, n in k[1]) or '1') + ')'
        raise ExtractError('frame: kind ' + k[0])

    def stub(self, cn, caller):
        """contract stub replacing callee `cn` (assert requires; havoc assigns; assume ensures)"""
        f, fs = self.b.funcs[cn], self.b.fnspecs[cn]
        out = ['static ' + f.proto(), '{']
        for d in fs.decls:
            out.append('    ' + d)
        # a call that C++ never makes: an exception is already propagating (thrown by an argument expression the
        # translation did not separate).  Without this the callee's "ensures !thrown" would silently drop the path.
        # The ensures are therefore assumed only when nothing was pending; otherwise the state is left arbitrary and the
        # pending throw stays pending (no early return: that made some queries much slower).
        out.append('    const _Bool verif_pending = verif_thrown;')
        for r in fs.requires:
            out.append('    __CPROVER_assert(verif_thrown || (%s), "%s/call %s/requires");' % (subst(r, f=f), caller, cn))
        olds = {}
        for _, e in fs.ensures:
            for full, inner in find_olds(e):
                if full not in olds:
                    olds[full] = 'verif_old%d' % len(olds)
                    out.append('    __typeof__(%s) %s = %s;' % (inner, olds[full], inner))
        for a in fs.assigns:
            out.append('    VERIF_HAVOC(%s);' % a)
            v = self.tr.tm.valid_for(a, dict((n, t) for t, n, _ in f.params))
            if v:
                out.append('    __CPROVER_assume(%s);' % v)
        out.append('    { _Bool verif_t; if (!verif_thrown) verif_thrown = verif_t; }   /* may throw unless the contract says otherwise */')
        for d in fs.lets:
            out.append('    ' + subst(d, f=f))
        if f.ret != 'void':
            out.append('    %s verif_ret;' % f.ret)
            v = self.tr.tm.valid(f.ret, 'verif_ret')
            if v:
                out.append('    __CPROVER_assume(%s);' % v)
        for nm, e in fs.ensures:
            if '@' in nm:
                tags = nm.split('@')[1].split('|')
                if 'ENFORCE' in tags or (self.curmode not in tags and set(tags) - {'ENFORCE'}):
                    continue          # not part of what callers may assume
            for full, v in olds.items():
                e = e.replace(full, v)
            out.append('    __CPROVER_assume(verif_pending || (%s));' % subst(e, f=f))
        if f.ret != 'void':
            out.append('    return verif_ret;')
        out.append('}')
        return '\n'.join(out) + '\n'

    def ghost_statics(self):
        """file-scope ghost objects of the unit prelude (static ..., names starting with ghost_).  C gives statics the
        value zero; a ghost stands for an ARBITRARY index / previous state, so every harness havocs them first."""
        names = []
        txt = re.sub(r'/\*.*?\*/', ' ', self.u.prelude or '', flags=re.S)
        txt = '\n'.join(l for l in txt.split('\n') if not l.lstrip().startswith('#'))
        for m in re.finditer(r'(?m)^\s*static\s+(?!const\b)(?!inline\b)((?:struct\s*\w*\s*\{[^}]*\}|[^;{}()=])*);', txt):
            decl = re.sub(r'struct\s*\w*\s*\{[^}]*\}', 'struct_body', m.group(1))
            for nm in re.findall(r'\b(ghost_\w+)\b', decl):
                if nm not in names:
                    names.append(nm)
        return names

    def havoc_ghosts(self):
        return ''.join('    VERIF_HAVOC(%s);   /* ghost: arbitrary, not the zero a C static starts with */\n' % g
                       for g in self.ghost_statics())

    def enforce(self, cn, mode):
        f, fs = self.b.funcs[cn], self.b.fnspecs[cn]
        tag = cn
        out = ['void harness(void)', '{'] + [l for l in self.havoc_ghosts().split('\n') if l]
        args = []
        ghost = []
        for ct, name, isref in f.params:
            if isref:
                base = ct.rstrip(' *').rstrip()
                out.append('    %s verif_obj_%s; %s %s = &verif_obj_%s;' % (base, name, ct, name, name))
                v = self.tr.tm.valid(base, 'verif_obj_' + name)
            else:
                out.append('    %s %s;' % (ct, name))
                v = self.tr.tm.valid(ct, name)
            if v:
                out.append('    __CPROVER_assume(%s);   /* type invariant of the input (bool is 0/1) */' % v)
            args.append(name)
        for d in fs.decls:
            out.append('    ' + d)
        for d in fs.inits:
            out.append('    ' + subst(d, f=f).rstrip(';') + ';   /* entry snapshot (ghost) */')
        for r in fs.axioms:
            out.append('    __CPROVER_assume(%s);   /* axiom (assumed, listed in the evidence) */' % subst(r, f=f))
        for r in fs.requires:
            out.append('    __CPROVER_assume(%s);' % subst(r, f=f))
        for d in fs.lets:
            out.append('    ' + subst(d, f=f))
        olds = {}
        for _, e in fs.ensures:
            for full, inner in find_olds(e):
                if full not in olds:
                    olds[full] = 'verif_old%d' % len(olds)
                    out.append('    __typeof__(%s) %s = %s;' % (inner, olds[full], inner))
        # input snapshots (so that counterexample traces show the initial objects)
        for ct, name, isref in f.params:
            if isref:
                out.append('    %s verif_in_%s = *%s;' % (ct.rstrip(' *').rstrip(), name, name))
        # frame snapshots
        frame = []
        for ct, name, isref in f.params:
            if not isref:
                continue
            base = ct.rstrip(' *').rstrip()
            covered = [a for a in fs.assigns if re.sub(r'\s+', '', a) in ('*' + name,)]
            if covered:
                continue
            k = self.tr.tm.kinds.get(base)
            fld_assigned = [a for a in fs.assigns if a.replace(' ', '').startswith(name + '->')]
            if k and k[0] == 'rec' and fld_assigned:
                for t, fn in k[1]:
                    if any(re.match(r'%s->%s\b' % (re.escape(name), re.escape(fn)), a.replace(' ', '')) for a in fld_assigned):
                        continue
                    frame.append((t, '%s->%s' % (name, fn), 'verif_fr_%s_%s' % (name, fn)))
            else:
                frame.append((base, '(*%s)' % name, 'verif_fr_%s' % name))
        for t, lv, snap in frame:
            out.append('    %s %s = %s;' % (t, snap, lv))
        out.append('    verif_thrown = 0;')
        call = '%s(%s)' % (cn, ', '.join(args))
        if f.ret != 'void':
            out.append('    %s verif_ret = %s;' % (f.ret, call))
        else:
            out.append('    %s;' % call)
        names = []
        for nm, e in fs.ensures:
            if '@' in nm:
                nm, only = nm.split('@')
                tags = set(only.split('|')) - {'ENFORCE'}
                if tags and mode not in tags:
                    continue
            for full, v in olds.items():
                e = e.replace(full, v)
            desc = '%s/ensures %s' % (tag, nm)
            names.append(desc)
            out.append('    __CPROVER_assert(%s, "%s");' % (subst(e, f=f), desc))
        for t, lv, snap in frame:
            desc = '%s/frame %s unchanged' % (tag, lv)
            out.append('    __CPROVER_assert(%s, "%s");' % (self.eq(t, lv, snap, ghost), desc))
        out.append('    __CPROVER_assert(0, "%s/reach");' % tag)
        out.append('}')
        # ghost index declarations go first
        body = out[:2] + ['    ' + g for g in ghost] + out[2:]
        return '\n'.join(body) + '\n'

    def closure(self, roots, replaced):
        """functions whose bodies are needed: roots + transitive non-replaced callees"""
        need, todo = [], list(roots)
        while todo:
            c = todo.pop()
            if c in need or (c in replaced and c not in roots):
                continue
            need.append(c)
            todo += [x for x in self.b.funcs[c].calls]
        return need

    def order(self, names):
        # emit in spec order
        return [cn for cn in self.b.funcs if cn in names]

    def unit_file(self, name, mode, roots, replaced, harness_text, caller, extra=''):
        self.curmode = mode
        need = self.closure(list(roots) + [c for c in self.tr.global_fn_deps if c not in replaced], replaced)
        txt = [self.header(mode, getattr(self, 'extra_defs', [])), self.common()]
        used_stubs = set()
        for c in need:
            used_stubs |= (self.b.funcs[c].calls & set(replaced))
        # a stub may itself not call anything; stubs for replaced callees reachable from need
        # a function that is both extracted and replaced calls ITSELF (recursion): inside its body the recursive calls
        # go to its own contract (stub <name>__rec) -- the usual modular rule for recursion; termination is not proved
        selfrec = [c for c in need if c in replaced]
        for cn in self.order(used_stubs):
            st = self.stub(cn, caller)
            if cn in selfrec:
                st = re.sub(r'\b%s\(' % re.escape(cn), cn + '__rec(', st, count=1)
            txt.append(st)
        for cn in self.order(need):
            if self.b.funcs[cn].text is None:
                raise ExtractError('%s: %s belongs to another translation unit and has no contract to stand in for it' % (self.u.name, cn))
            txt.append('/* ---- extracted from %s:%s  %s ---- */' % (
                (self.b.funcs[cn].file or '').replace(REPO + '/', ''), self.b.funcs[cn].line, self.b.funcs[cn].qual))
            body = self.b.funcs[cn].text
            for c in selfrec:
                if c in self.b.funcs[cn].calls:
                    if c == cn:
                        head, nl, rest = body.partition('\n')      # the first line is the signature of cn itself
                        body = head + nl + re.sub(r'\b%s\(' % re.escape(c), c + '__rec(', rest)
                    else:
                        body = re.sub(r'\b%s\(' % re.escape(c), c + '__rec(', body)
            txt.append('static ' + body)
        txt.append(extra)
        txt.append(harness_text)
        # a function that is called (typically from contract / macro text) but has neither its body nor a contract stub
        # in this file would silently be a nondeterministic function for CBMC
        defined = set(need) | set(used_stubs) | {c + '__rec' for c in selfrec}
        defined |= set(re.findall(r'(?m)^static [^;{()]*?\b(\w+)\([^;{]*\)\s*\n\{', extra or ''))
        body_txt = '\n'.join(txt[2:])
        for c in self.b.funcs:
            if c not in defined and re.search(r'\b%s\(' % re.escape(c), body_txt):
                raise ExtractError('%s/%s: %s is called (by contract or macro text) but is neither extracted nor replaced here; name it in inline: or replace:' % (self.u.name, name, c))
        p = os.path.join(self.wd, '%s__%s.c' % (self.u.name, name))
        with open(p, 'w') as f:
            f.write('\n'.join(txt))
        return p

    def sercov_harness(self, cls, excl):
        """field-coverage obligation for `cls::serializeOp`: every call serializer(<member>) of the (template
        pattern) body sets a ghost flag; conditions are replaced by nondeterministic choices"""
        from opm2c.astdb import walk
        short = cls.split('::')[-1]
        recs = [n for n in self.db.byid.values() if n.get('kind') == 'CXXRecordDecl' and n.get('name') == short
                and n.get('completeDefinition') and any(k.get('kind') == 'FieldDecl' for k in n.get('inner', []))]
        if len(recs) != 1:
            raise ExtractError('sercov %s: %d class definitions found' % (cls, len(recs)))
        rec = recs[0]
        fields = [k['name'] for k in rec['inner'] if k.get('kind') == 'FieldDecl']
        ser = None
        for k in rec.get('inner', []):
            if k.get('name') == 'serializeOp' and k.get('kind') in ('FunctionTemplateDecl', 'CXXMethodDecl'):
                ser = k
        if ser is None:
            raise ExtractError('sercov %s: serializeOp is not defined in the class body' % cls)
        pat = ser
        if ser['kind'] == 'FunctionTemplateDecl':
            pat = [k for k in ser.get('inner', []) if k.get('kind') == 'CXXMethodDecl' and
                   any(x.get('kind') == 'CompoundStmt' for x in k.get('inner', []))][0]
        body = [x for x in pat.get('inner', []) if x.get('kind') == 'CompoundStmt'][0]
        sparam = [x for x in pat.get('inner', []) if x.get('kind') == 'ParmVarDecl']
        sid = sparam[0]['id'] if sparam else None

        def member_name(y):
            if y.get('kind') == 'MemberExpr' and y.get('name') in fields:
                return y['name']
            if y.get('kind') == 'CXXDependentScopeMemberExpr' and y.get('member') in fields:
                return y['member']
            return None

        def ser_calls(n):
            """(members passed to serializer(...), members otherwise mentioned) in statement n"""
            passed, seen_in_call = [], set()
            for y in walk(n):
                if y.get('kind') == 'CallExpr' and y.get('inner'):
                    c0 = y['inner'][0]
                    while c0.get('kind') in ('ImplicitCastExpr', 'ParenExpr') and c0.get('inner'):
                        c0 = c0['inner'][0]
                    if c0.get('kind') == 'DeclRefExpr' and c0['referencedDecl'].get('id') == sid:
                        for a in y['inner'][1:]:
                            for z in walk(a):
                                m = member_name(z)
                                if m:
                                    passed.append(m)
                                    seen_in_call.add(id(z))
            other = [member_name(y) for y in walk(n) if member_name(y) and id(y) not in seen_in_call]
            return passed, other

        def cond_text(c):
            """isSerializing() tests are kept (ghost mode flag); every other condition is nondeterministic"""
            x = c
            neg = False
            while x.get('kind') in ('ImplicitCastExpr', 'ParenExpr', 'ExprWithCleanups') and x.get('inner'):
                x = x['inner'][0]
            if x.get('kind') == 'UnaryOperator' and x.get('opcode') == '!':
                neg = True
                x = x['inner'][0]
                while x.get('kind') in ('ImplicitCastExpr', 'ParenExpr') and x.get('inner'):
                    x = x['inner'][0]
            for y in walk(x):
                if y.get('kind') in ('MemberExpr', 'CXXDependentScopeMemberExpr') and (y.get('name') or y.get('member')) == 'isSerializing' \
                        and x.get('kind') in ('CallExpr', 'CXXMemberCallExpr'):
                    return ('!' if neg else '') + 'ghost_serializing'
            return 'verif_nondet_bool()'

        def emit(st, ind, lines, mode):
            k = st.get('kind')
            pad = '    ' * ind
            if k == 'CompoundStmt':
                for y in st.get('inner', []):
                    if y:
                        emit(y, ind, lines, mode)
            elif k == 'IfStmt':
                inner = [y for y in st.get('inner', []) if y]
                lines.append(pad + 'if (%s) {' % cond_text(inner[0]))
                emit(inner[1], ind + 1, lines, mode)
                lines.append(pad + '}')
                if len(inner) > 2:
                    lines.append(pad + 'else {')
                    emit(inner[2], ind + 1, lines, mode)
                    lines.append(pad + '}')
            elif k in ('ForStmt', 'WhileStmt', 'CXXForRangeStmt', 'DoStmt', 'SwitchStmt'):
                lines.append(pad + 'if (verif_nondet_bool()) {   /* %s: body may not execute */' % k)
                for y in st.get('inner', []):
                    if y and y.get('kind') == 'CompoundStmt':
                        emit(y, ind + 1, lines, mode)
                lines.append(pad + '}')
            else:
                passed, other = ser_calls(st)
                ln = st.get('range', {}).get('begin', {}).get('_line')
                for m in passed:
                    lines.append(pad + 'ghost_%s_ser_%s = 1;   /* serializer(%s), line %s */' % (mode, m, m, ln))
                for m in other:
                    lines.append(pad + 'ghost_%s_set_%s = 1;   /* %s mentioned outside a serializer() call, line %s */' % (mode, m, m, ln))
        # ---- re-attachment calls (pseudo-exclusions CALL_<member function>): a non-owning pointer member that is not
        # transferred must be re-attached after unpacking for EVERY object: the named call has to occur in the part of
        # serializeOp that runs when unpacking, inside loops only -- under no condition other than the isSerializing()
        # test, and in no loop whose body can skip it (continue / break / return / goto)
        reattach = {}
        for key in [k for k in excl if k.startswith('CALL_')]:
            fn = key[5:]
            found = {'n': 0, 'guarded': 0, 'pack_only': 0}

            def scan(st, guards, in_unpack):
                k = st.get('kind')
                if k == 'IfStmt':
                    inner = [y for y in st.get('inner', []) if y]
                    ct = cond_text(inner[0])
                    if ct == '!ghost_serializing':
                        scan(inner[1], guards, True)
                        if len(inner) > 2:
                            scan(inner[2], guards, False)
                    elif ct == 'ghost_serializing':
                        scan(inner[1], guards, False)
                        if len(inner) > 2:
                            scan(inner[2], guards, True)
                    else:
                        for y in inner[1:]:
                            scan(y, guards + 1, in_unpack)
                    return
                if k in ('ForStmt', 'WhileStmt', 'CXXForRangeStmt', 'DoStmt'):
                    bodies = [y for y in st.get('inner', []) if y and y.get('kind') in ('CompoundStmt', 'IfStmt', 'ForStmt', 'CXXForRangeStmt', 'WhileStmt', 'ExprWithCleanups', 'CXXMemberCallExpr', 'CallExpr')]
                    skips = any(z.get('kind') in ('ContinueStmt', 'BreakStmt', 'ReturnStmt', 'GotoStmt') for y in bodies for z in walk(y))
                    for y in bodies[-1:]:
                        scan(y, guards + (1 if skips else 0), in_unpack)
                    return
                if k in ('CompoundStmt', 'SwitchStmt'):
                    for y in st.get('inner', []):
                        if y:
                            scan(y, guards + (1 if k == 'SwitchStmt' else 0), in_unpack)
                    return
                for y in walk(st):
                    if y.get('kind') in ('MemberExpr', 'CXXDependentScopeMemberExpr') and (y.get('name') or y.get('member')) == fn:
                        found['n'] += 1
                        if guards:
                            found['guarded'] += 1
                        if not in_unpack:
                            found['pack_only'] += 1
            scan(body, 0, True)
            reattach[fn] = found
        out = ['_Bool verif_nondet_bool(void);', 'void harness(void)', '{', '    _Bool ghost_serializing;']
        for f in fields:
            out.append('    _Bool ghost_pack_ser_%s = 0, ghost_pack_set_%s = 0, ghost_unpack_ser_%s = 0, ghost_unpack_set_%s = 0;' % (f, f, f, f))
        for mode, flag in (('pack', 1), ('unpack', 0)):
            out.append('    /* ---- %s pass: serializer.isSerializing() == %d ---- */' % (mode, flag))
            out.append('    ghost_serializing = %d;' % flag)
            lines = []
            emit(body, 1, lines, mode)
            out += lines
        for fn, found in reattach.items():
            out.append('    /* re-attachment by %s(): %d call site(s) in serializeOp, %d under a condition or in a loop that can skip it, %d outside the unpack pass */' % (
                fn, found['n'], found['guarded'], found['pack_only']))
            out.append('    __CPROVER_assert(%d, "%s::serializeOp/re-attaches by %s when unpacking");' % (1 if found['n'] > found['pack_only'] else 0, short, fn))
            out.append('    __CPROVER_assert(%d, "%s::serializeOp/re-attaches by %s for every object, under no condition");' % (0 if found['guarded'] else 1, short, fn))
        for f in fields:
            if f in excl:
                out.append('    /* %s excluded: %s */' % (f, excl[f]))
                continue
            out.append('    __CPROVER_assert(ghost_unpack_ser_%s || ghost_unpack_set_%s, "%s::serializeOp/visits %s");' % (f, f, short, f))
            out.append('    __CPROVER_assert(ghost_pack_ser_%s == ghost_unpack_ser_%s, "%s::serializeOp/packs %s iff it unpacks it");' % (f, f, short, f))
        out.append('    __CPROVER_assert(0, "%s/reach");' % short)
        out.append('}')
        return '\n'.join(out) + '\n', fields

    def jobs(self, tier):
        u, b = self.u, self.b
        jobs = []
        for cls, excl in u.sercov:
            txt, fields = self.sercov_harness(cls, excl)
            short = cls.split('::')[-1]
            p = os.path.join(self.wd, '%s__sercov_%s.c' % (u.name, short))
            with open(p, 'w') as f:
                f.write('/* GENERATED from the AST of %s: field coverage of %s::serializeOp */\n' % (u.tu, cls) + txt)
            j = Job(u.name, 'sercov_%s[BV]' % short, 'coverage', 'BV', p, ['--no-pointer-check'] if False else [], u.timeout)
            j.target = short
            j.expect_fail.add('%s/reach' % short)
            jobs.append(j)
        contracted = [cn for cn, fs in b.fnspecs.items() if fs.contracted]
        for cn, fs in b.fnspecs.items():
            if not fs.ensures or 'noenforce' in fs.opts or 'extern' in fs.opts:
                continue
            modes = (fs.opts.get('mode') or u.mode).split(',')
            for mode in modes:
                if fs.replace is not None:
                    replaced = [c for c in fs.replace]
                else:
                    replaced = [c for c in contracted if c != cn and c not in fs.inline]
                h = self.enforce(cn, mode)
                self.extra_defs = ['#define VERIF_ENFORCING_%s 1' % cn] + (['#define VERIF_TABLES_UF 1'] if 'uf_tables' in fs.opts else [])
                # functions named in `inline:` keep their real bodies, also when only the contract text calls them
                p = self.unit_file('%s_%s' % (cn, mode), mode, [cn] + [c for c in fs.inline if c in b.funcs and c != cn], replaced, h, cn)
                self.extra_defs = []
                fl = list(u.flags) + (fs.opts.get('flags', '').replace(',', ' ').split() if fs.opts.get('flags') else [])
                j = Job(u.name, '%s[%s]' % (cn, mode), 'enforce', mode, p, fl,
                        int(fs.opts.get('timeout', u.timeout)))
                j.target = cn
                j.split_first = 'split' in fs.opts
                j.expect_fail.add('%s/reach' % cn)
                jobs.append(j)
        for h in u.harnesses:
            if h.opts.get('tier') == 'thorough' and tier != 'thorough':
                continue
            modes = (h.opts.get('mode') or u.mode).split(',')
            for mode in modes:
                if h.kind == 'lemma':
                    repl = h.opts.get('replace')
                    replaced = repl.split(',') if repl else contracted
                    roots = [c for c in b.funcs if re.search(r'\b%s\b' % re.escape(c), h.body)]
                else:
                    repl = h.opts.get('replace')
                    replaced = repl.split(',') if repl else []
                    roots = [c for c in b.funcs if re.search(r'\b%s\b' % re.escape(c), h.body)]
                body = 'void harness(void)\n{\n' + self.havoc_ghosts() + '    verif_thrown = 0;\n' + h.body + \
                       '\n    __CPROVER_assert(0, "%s/reach");\n}\n' % h.name
                body = body.replace('LEMMA_OBL(', '__CPROVER_assert(')
                roots_needed = [r for r in roots if r not in replaced]
                # stubs needed directly by the lemma body
                self.curmode = mode
                extra = ''.join(self.stub(c, h.name) for c in self.order([r for r in roots if r in replaced])
                                if not any(c in (self.b.funcs[x].calls) for x in self.closure(roots_needed, replaced)))
                p = self.unit_file('%s_%s' % (h.name, mode), mode, roots_needed, replaced, body, h.name, extra)
                fl = list(u.flags) + (h.opts.get('flags', '').replace(',', ' ').split() if h.opts.get('flags') else [])
                j = Job(u.name, '%s[%s]' % (h.name, mode), h.kind, mode, p, fl, int(h.opts.get('timeout', u.timeout)))
                j.target = h.name
                j.split_first = 'split' in h.opts
                j.expect_fail.add('%s/reach' % h.name)
                jobs.append(j)
        return jobs
