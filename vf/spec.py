"""Parser for contracts/<prop>/<unit>.spec  (plain text; see DESIGN.md section 2.2)."""
import os
import re


class SpecError(Exception):
    pass


class FnSpec:
    def __init__(self, qual, opts):
        self.qual = qual
        self.sig = opts.get('sig')
        self.cname = opts.get('as') or re.sub(r'[^A-Za-z0-9_]+', '_', qual.split('::')[-1])
        self.opts = opts
        self.requires = []          # [expr]
        self.axioms = []            # [expr] assumed when the function is enforced, NOT asserted at call sites (reported as assumptions)
        self.ensures = []           # [(name, expr)]
        self.assigns = []           # [lvalue]
        self.decls = []             # raw C declarations (ghost / logical variables), before requires
        self.inits = []             # ghost_ assignments made only by the enforce harness, before the call (entry snapshots)
        self.lets = []              # raw C declarations evaluated after requires
        self.loops = {}             # k -> dict(invariant=[(name, expr)], assigns=[], decreases=None)
        self.ghosts = {}            # anchor -> text
        self.replace = None         # None = all contracted callees
        self.inline = []
        self.line = 0
        self.slice = None
        self.exports = []

    @property
    def contracted(self):
        return bool(self.ensures or self.requires)


class Harness:
    def __init__(self, kind, name, opts, body):
        self.kind, self.name, self.opts, self.body = kind, name, opts, body


class Unit:
    def __init__(self):
        self.name = None
        self.tu = None
        self.filter = None
        self.mode = 'SA'
        self.includes = []
        self.typemap = []
        self.opaque = []
        self.records = {}
        self.lib = {}
        self.flags = []
        self.abstract_mul = False
        self.timeout = 300
        self.prelude = ''
        self.functions = []
        self.harnesses = []
        self.trusted = []
        self.extra_inc = []
        self.driver = None      # text of an explicit-instantiation driver TU
        self.path = None
        self.not_covered = []
        self.globals = []
        self.structs = []     # (name, [(ctype, field)]) abstraction structs declared by the unit
        self.instantiate = []
        self.enums = []
        self.axiom_schemas = []     # names of prelude macros AX(p) assumed for every p; instantiated by VERIF_INSTANTIATE / axiom:
        self.sercov = []      # (class name, {field: reason})


def _opts(words):
    o = {}
    rest = []
    i = 0
    while i < len(words):
        w = words[i]
        if '=' in w:
            k, v = w.split('=', 1)
            o[k] = v
        elif w == 'as' and i + 1 < len(words):
            o['as'] = words[i + 1]
            i += 1
        else:
            o[w] = True
        i += 1
    return o


def parse(path):
    u = Unit()
    u.path = path
    lines = []
    for ln in open(path).read().split('\n'):
        if ln.startswith('@import '):
            ip = os.path.join(os.path.dirname(os.path.abspath(path)), ln.split(None, 1)[1].strip())
            if not os.path.exists(ip):
                ip = os.path.join(os.path.dirname(os.path.dirname(os.path.abspath(__file__))), 'contracts', ln.split(None, 1)[1].strip())
            lines += open(ip).read().split('\n')
        else:
            lines.append(ln)
    i = 0
    cur = None            # current FnSpec
    raw = None            # (target kind, obj) collecting raw text
    rawbuf = []

    def flush_raw():
        nonlocal raw, rawbuf
        if raw is None:
            return
        kind, obj = raw
        txt = '\n'.join(rawbuf).strip('\n') + '\n'
        if kind == 'prelude':
            u.prelude += txt
        elif kind == 'driver':
            u.driver = txt
        else:
            obj.body = txt
        raw, rawbuf = None, []

    lastkey = None
    while i < len(lines):
        ln = lines[i]
        i += 1
        if ln.startswith('@'):
            flush_raw()
            cur = None
            lastkey = None
            words = ln[1:].split()
            d = words[0]
            if d == 'unit':
                u.name = words[1]
            elif d == 'tu':
                u.tu = words[1]
            elif d == 'filter':
                u.filter = (u.filter or []) + [ln[1:].split(None, 1)[1].strip()]
            elif d == 'mode':
                u.mode = words[1]
            elif d == 'include':
                u.includes.append(words[1])
            elif d == 'typemap':
                k, v = ln[1:].split(None, 1)[1].split(' = ')
                u.typemap.append((k.strip(), v.strip()))
            elif d == 'record':
                k, v = ln[1:].split(None, 1)[1].split(' = ')
                u.records[k.strip()] = v.strip()
            elif d == 'lib':
                k, v = ln[1:].split(None, 1)[1].split(' = ')
                u.lib[k.strip()] = v.strip()
            elif d == 'instantiate':
                u.instantiate += words[1:]
            elif d == 'enum':
                u.enums += words[1:]
            elif d == 'axiom':
                u.axiom_schemas += words[1:]
            elif d == 'struct':
                body = ln[1:].split(None, 2)[2]
                flds = []
                for part in body.split(';'):
                    part = part.strip()
                    if part:
                        t, f = part.rsplit(None, 1)
                        flds.append((t.strip(), f.strip()))
                u.structs.append((words[1], flds))
            elif d == 'sercov':
                excl = {}
                for wd in ln[1:].split(None, 2)[2:]:
                    for m in re.finditer(r'(\w+):"([^"]*)"', wd):
                        excl[m.group(1)] = m.group(2)
                u.sercov.append((words[1], excl))
            elif d == 'global':
                u.globals.append(words[1])
            elif d == 'opaque':
                u.opaque.append(words[1])
            elif d == 'flags':
                u.flags += words[1:]
            elif d == 'abstractmul':
                # products of two non-constant size_t values are an uninterpreted function (sound abstraction; the unit
                # states the instances of distributivity it needs as axioms)
                u.abstract_mul = True
            elif d == 'timeout':
                u.timeout = int(words[1])
            elif d == 'trusted':
                u.trusted.append(ln[1:].split(None, 1)[1].strip())
            elif d == 'notcovered':
                u.not_covered.append(ln[1:].split(None, 1)[1].strip())
            elif d == 'prelude':
                raw = ('prelude', None)
            elif d == 'driver':
                raw = ('driver', None)
            elif d == 'function':
                cur = FnSpec(words[1], _opts(words[2:]))
                cur.line = i
                u.functions.append(cur)
            elif d in ('lemma', 'harness'):
                h = Harness(d, words[1], _opts(words[2:]), '')
                u.harnesses.append(h)
                raw = ('body', h)
            else:
                raise SpecError('%s:%d unknown directive @%s' % (path, i, d))
            continue
        if raw is not None:
            rawbuf.append(ln)
            continue
        if not ln.strip() or ln.lstrip().startswith('#'):
            continue
        if cur is None:
            raise SpecError('%s:%d text outside a section: %s' % (path, i, ln))
        if ln[0] in ' \t' and lastkey is not None:
            lastkey(' ' + ln.strip())
            continue
        m = re.match(r'([a-z_]+)((?: +[^:]+)?):(.*)$', ln)
        if not m:
            raise SpecError('%s:%d cannot parse: %s' % (path, i, ln))
        key, arg, val = m.group(1), m.group(2).strip(), m.group(3).strip()
        if key == 'qual':
            if not cur.opts.get('as'):
                cur.cname = cur.qual
            cur.qual = val
            lastkey = None
        elif key == 'slice':
            cur.slice = val
            lastkey = None
        elif key == 'export':
            cur.exports = [x.strip() for x in val.split(',') if x.strip()]
            lastkey = None
        elif key == 'sig':
            cur.sig = val
            lastkey = None
        elif key == 'init':
            if not re.match(r'ghost_\w+\s*=', val.strip()):
                raise SpecError('%s:%d init: may only assign a ghost_ variable' % (path, i))
            cur.inits.append(val)
            lastkey = None
        elif key == 'axiom':
            cur.axioms.append(val)
            lastkey = (lambda c: (lambda s: c.axioms.__setitem__(-1, c.axioms[-1] + s)))(cur)
        elif key == 'requires':
            cur.requires.append(val)
            lastkey = (lambda c: (lambda s: c.requires.__setitem__(-1, c.requires[-1] + s)))(cur)
        elif key == 'ensures':
            cur.ensures.append((arg or 'e%d' % len(cur.ensures), val))
            lastkey = (lambda c: (lambda s: c.ensures.__setitem__(-1, (c.ensures[-1][0], c.ensures[-1][1] + s))))(cur)
        elif key == 'assigns':
            cur.assigns += [x.strip() for x in val.split(',') if x.strip()]
            lastkey = None
        elif key == 'decl':
            cur.decls.append(val)
            lastkey = (lambda c: (lambda s: c.decls.__setitem__(-1, c.decls[-1] + s)))(cur)
        elif key == 'let':
            cur.lets.append(val)
            lastkey = (lambda c: (lambda s: c.lets.__setitem__(-1, c.lets[-1] + s)))(cur)
        elif key == 'replace':
            cur.replace = [x.strip() for x in val.split(',') if x.strip()]
            lastkey = None
        elif key == 'inline':
            cur.inline = [x.strip() for x in val.split(',') if x.strip()]
            lastkey = None
        elif key == 'loop':
            parts = arg.split()
            k = int(parts[0])
            what = parts[1]
            L = cur.loops.setdefault(k, {'invariant': [], 'assigns': [], 'decreases': None})
            if what == 'invariant':
                L['invariant'].append((parts[2] if len(parts) > 2 else 'i%d' % len(L['invariant']), val))
                lastkey = (lambda LL: (lambda s: LL['invariant'].__setitem__(-1, (LL['invariant'][-1][0], LL['invariant'][-1][1] + s))))(L)
            elif what == 'assigns':
                L['assigns'] += [x.strip() for x in val.split(',') if x.strip()]
                lastkey = None
            elif what == 'decreases':
                L['decreases'] = val
                lastkey = None
            else:
                raise SpecError('%s:%d bad loop clause' % (path, i))
        elif key == 'ghost':
            cur.ghosts[arg] = val
            lastkey = (lambda c, a: (lambda s: c.ghosts.__setitem__(a, c.ghosts[a] + '\n' + s)))(cur, arg)
        else:
            raise SpecError('%s:%d unknown key %s' % (path, i, key))
    flush_raw()
    for fs in u.functions:
        for anchor, g in fs.ghosts.items():
            for st in [x.strip() for x in re.split(r';\s*(?:\n|$)', g) if x.strip()]:
                mi = re.match(r'VERIF_INSTANTIATE\((\w+)\s*,', st)
                if mi:
                    # an instance of a declared (assumed, reported) axiom schema of this unit
                    if mi.group(1) not in u.axiom_schemas:
                        raise SpecError('%s: VERIF_INSTANTIATE of %s, which is not declared with @axiom' % (path, mi.group(1)))
                    continue
                if not re.match(r'(VERIF_LEMMA\(|ghost_\w+(\[[^\]]*\]|\.\w+)*\s*(=|\+=|-=)|(real_t|c_int|c_long|c_ulong|c_uint|_Bool|unsigned long|struct \w+)\s+ghost_\w+|if\s*\(.*\)\s*ghost_\w+|GHOST_\w+\()', st):
                    raise SpecError('%s: ghost statement may only state lemmas or assign ghost_ variables: %r' % (path, st))
        if fs.ensures and not any('\\thrown' in e for _, e in fs.ensures) and 'maythrow' not in fs.opts:
            fs.ensures.append(('nothrow', '!\\thrown'))
    if not u.name or not u.tu:
        raise SpecError('%s: @unit and @tu are required' % path)
    return u
