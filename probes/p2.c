typedef __CPROVER_integer int_t;
int_t nondet_int(void);
int main(void){
  int_t nx=nondet_int(), ny=nondet_int(), nz=nondet_int(), i=nondet_int(), j=nondet_int(), k=nondet_int();
  __CPROVER_assume(nx>0 && ny>0 && nz>0 && 0<=i && i<nx && 0<=j && j<ny && 0<=k && k<nz);
  int_t g = i + nx*(j + k*ny);
  __CPROVER_assert(g >= 0 && g < nx*ny*nz, "range");
  int_t g0=g;
  int_t i2 = g - (g/nx)*nx; g = g/nx;
  int_t j2 = g - (g/ny)*ny; g = g/ny;
  int_t k2 = g;
  __CPROVER_assert(i2==i && j2==j && k2==k, "inverse");
  return 0;
}
