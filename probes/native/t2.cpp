#include <opm/io/eclipse/OutputStream.hpp>
#include <opm/io/eclipse/ERst.hpp>
#include <filesystem>
#include <fstream>
#include <iostream>
#include <iterator>
#include <vector>
#include <string>
using namespace Opm::EclIO::OutputStream;
static void step(const std::string& dir, const std::string& base, int s){
    ResultSet rset{dir, base};
    Restart r{rset, s, Formatted{false}, Unified{true}};
    r.write("INTEHEAD", std::vector<int>{s, 2, 3});
    r.write("PRESSURE", std::vector<float>(1500, 1.5f*s));   // > 1 block
    r.write("DOUBHEAD", std::vector<double>(3, 2.5*s));
}
static std::string slurp(const std::string& f){ std::ifstream is(f, std::ios::binary); return {std::istreambuf_iterator<char>(is), {}}; }
int main(){
  std::filesystem::remove_all("c"); std::filesystem::create_directories("c");
  for (int s : {1,2}) step("c","CASE",s);
  auto full = slurp("c/CASE.UNRST");
  int wrong=0, ok=0, err=0;
  for (size_t cut=0; cut<=full.size(); ++cut) {
    { std::ofstream os("c/T.UNRST", std::ios::binary|std::ios::trunc); os.write(full.data(), cut); }
    try {
      Opm::EclIO::ERst rst("c/T.UNRST");
      for (int s : {1,2}) {
        if (!rst.hasReportStepNumber(s)) continue;
        try {
          auto& ih = rst.getRestartData<int>("INTEHEAD", s, 0);
          auto& p  = rst.getRestartData<float>("PRESSURE", s, 0);
          auto& d  = rst.getRestartData<double>("DOUBHEAD", s, 0);
          bool good = ih==std::vector<int>{s,2,3} && p==std::vector<float>(1500,1.5f*s) && d==std::vector<double>(3,2.5*s);
          if (good) ++ok; else { ++wrong; if (wrong<6) std::cout << "WRONG DATA cut="<<cut<<" step="<<s<<" sizes "<<ih.size()<<" "<<p.size()<<" "<<d.size()<<"\n"; }
        } catch (const std::exception& e) { ++err; }
      }
    } catch (const std::exception& e) { ++err; }
  }
  std::cout << "file bytes="<<full.size()<<" ok="<<ok<<" err="<<err<<" wrong="<<wrong<<"\n";
}
