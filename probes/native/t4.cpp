#include <opm/input/eclipse/Schedule/UDQ/UDQSet.hpp>
#include <opm/input/eclipse/Schedule/UDQ/UDQEnums.hpp>
#include <iostream>
using namespace Opm;
int main(){
  auto wset = UDQSet::wells("WU", {"P1","P2"}, 5.0);
  auto sc = UDQSet::scalar("S", 1.0);
  UDQSet undef("S", UDQVarType::SCALAR);   // one element, undefined
  std::cout << "undef scalar defined? " << undef[0].defined() << "\n";
  try { auto r = wset + sc; std::cout << "set+scalar ok: " << r[0].get() << "," << r[1].get() << "\n"; } catch (const std::exception& e){ std::cout << "EXC " << e.what() << "\n"; }
  try { auto r = wset + undef; std::cout << "set+undef scalar: defined " << r[0].defined() << r[1].defined() << "\n"; } catch (const std::exception& e){ std::cout << "EXC set+undef: " << e.what() << "\n"; }
  try { auto r = undef + wset; std::cout << "undef scalar+set: defined " << r[0].defined() << r[1].defined() << "\n"; } catch (const std::exception& e){ std::cout << "EXC undef+set: " << e.what() << "\n"; }
  try { auto r = undef + sc; std::cout << "undef scalar+scalar: defined " << r[0].defined() << "\n"; } catch (const std::exception& e){ std::cout << "EXC undef+sc: " << e.what() << "\n"; }
}
