#include <opm/io/eclipse/OutputStream.hpp>
#include <opm/io/eclipse/EclOutput.hpp>
#include <filesystem>
#include <fstream>
#include <iostream>
#include <iterator>
#include <vector>
#include <string>
using namespace Opm::EclIO::OutputStream;
static void step(const std::string& dir, const std::string& base, int s, bool fmt){
    ResultSet rset{dir, base};
    Restart r{rset, s, Formatted{fmt}, Unified{true}};
    r.write("INTEHEAD", std::vector<int>{s, 2, 3});
    r.write("PRESSURE", std::vector<float>(7, 1.5f*s));
}
static std::string slurp(const std::string& f){ std::ifstream is(f, std::ios::binary); return {std::istreambuf_iterator<char>(is), {}}; }
int main(){
  for (bool fmt : {false, true}) {
    std::filesystem::remove_all("a"); std::filesystem::remove_all("b");
    std::filesystem::create_directories("a"); std::filesystem::create_directories("b");
    for (int s : {1,2,3}) step("a","CASE",s,fmt);
    step("a","CASE",2,fmt);                 // rewind to 2
    for (int s : {1,2}) step("b","CASE",s,fmt);
    std::string ext = fmt ? "FUNRST" : "UNRST";
    auto A = slurp("a/CASE."+ext), B = slurp("b/CASE."+ext);
    std::cout << (fmt?"formatted":"unformatted") << ": rewound size=" << A.size() << " fresh size=" << B.size() << " equal=" << (A==B) << "\n";
    if (A!=B) { size_t i=0; while(i<A.size()&&i<B.size()&&A[i]==B[i]) ++i; std::cout << " first diff at " << i << ": A='" << A.substr(i>10?i-10:0,30) << "'\n B='" << B.substr(i>10?i-10:0,30) << "'\n"; }
  }
}
