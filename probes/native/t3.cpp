#include <opm/io/eclipse/EclFile.hpp>
#include <fstream>
#include <iostream>
#include <iterator>
#include <string>
#include <vector>
int main(int argc, char** argv){
  std::ifstream is("c/CASE.UNRST", std::ios::binary); std::string full{std::istreambuf_iterator<char>(is), {}};
  size_t cut = std::stoul(argv[1]);
  { std::ofstream os("c/T2.UNRST", std::ios::binary|std::ios::trunc); os.write(full.data(), cut); }
  try { Opm::EclIO::EclFile f("c/T2.UNRST"); f.loadData(); std::cout << "loaded " << f.size() << " arrays\n"; }
  catch (const std::exception& e) { std::cout << "exception: " << std::string(e.what()).substr(0,80) << "\n"; }
}
