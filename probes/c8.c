typedef __CPROVER_rational real_t;
real_t nondet_real(void);
int main(void){ real_t z = 3; real_t o = 2; real_t w = z - o;  real_t v = nondet_real(); __CPROVER_assert(w*v == v, "g"); }
