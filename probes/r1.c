typedef __CPROVER_rational real_t;
real_t mul_d(real_t u, real_t v, real_t du, real_t dv) { return du*v + dv*u; }
int main(void){
  real_t u,v,du,dv;
  real_t r = mul_d(u,v,du,dv);
  __CPROVER_assert(r == v*du + u*dv, "prod rule");
  real_t q;
  __CPROVER_assume(v != 0);
  q = (v*du - u*dv)/(v*v);
  __CPROVER_assert(q == du/v - u*dv/(v*v), "quot rule reassoc");
  return 0;
}
