import sys, time; sys.path.insert(0,'/verif/probes/o2c')
from astload import *
targets = [
 ('opm/input/eclipse/Schedule/Schedule.hpp','Opm::Schedule','Schedule'),
 ('opm/input/eclipse/Schedule/ScheduleState.hpp','Opm::ScheduleState','ScheduleState'),
 ('opm/input/eclipse/Schedule/Well/Well.hpp','Opm::Well','Well'),
 ('opm/input/eclipse/Schedule/Group/Group.hpp','Opm::Group','Group'),
 ('opm/input/eclipse/Schedule/UDQ/UDQConfig.hpp','Opm::UDQConfig','UDQConfig'),
 ('opm/input/eclipse/Schedule/Action/ActionX.hpp','Opm::Action::ActionX','ActionX'),
 ('opm/input/eclipse/Schedule/SummaryState.hpp','Opm::SummaryState','SummaryState'),
 ('opm/input/eclipse/Schedule/UDQ/UDQState.hpp','Opm::UDQState','UDQState'),
 ('opm/input/eclipse/Schedule/Action/State.hpp','Opm::Action::State','State'),
 ('opm/input/eclipse/Schedule/Well/WellTestState.hpp','Opm::WellTestState','WellTestState'),
 ('opm/output/eclipse/RestartValue.hpp','Opm::RestartValue','RestartValue'),
 ('opm/input/eclipse/EclipseState/Tables/TableManager.hpp','Opm::TableManager','TableManager'),
 ('opm/input/eclipse/EclipseState/EclipseState.hpp','Opm::EclipseState','EclipseState'),
 ('opm/input/eclipse/Schedule/MSW/WellSegments.hpp','Opm::WellSegments','WellSegments'),
 ('opm/input/eclipse/Schedule/MSW/Segment.hpp','Opm::Segment','Segment'),
 ('opm/input/eclipse/Schedule/Well/WellConnections.hpp','Opm::WellConnections','WellConnections'),
]
import os
for hdr, filt, cname in targets:
    drv = f'/verif/probes/o2c/drv_{cname}.cpp'
    open(drv,'w').write(f'#include <{hdr}>\n')
    t=time.time()
    try:
        objs = dump(drv, filt)
    except Exception as e:
        print(cname, 'ERR', e); continue
    clss=[o for o in objs if o.get('kind')=='CXXRecordDecl' and o.get('name')==cname and any(k.get('kind')=='FieldDecl' for k in o.get('inner',[]))]
    if not clss: print(cname,'no class', [(o['kind'],o.get('name')) for o in objs][:5]); continue
    cls=clss[0]
    fields=[k['name'] for k in cls['inner'] if k.get('kind')=='FieldDecl']
    sers=[k for k in cls['inner'] if k.get('kind') in ('FunctionTemplateDecl','CXXMethodDecl') and k.get('name')=='serializeOp']
    if not sers: print(cname,'no serializeOp in class body (defined out of line?)', len(fields)); continue
    seen=set()
    for n in walk(sers[0]):
        if n.get('kind')=='MemberExpr' and n.get('name') in fields: seen.add(n['name'])
    print(f'{cname}: {len(fields)} fields, missing={[f for f in fields if f not in seen]}  ({time.time()-t:.1f}s)')
