#include <opm/material/densead/Evaluation.hpp>
#include <opm/material/densead/Math.hpp>
template class Opm::DenseAd::Evaluation<double,3>;
