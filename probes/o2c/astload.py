import json, subprocess, sys, os, hashlib
FLAGS = "-std=c++17 -DHAVE_CONFIG_H=1 -I/repo/_build -I/repo/_build/include -I/repo -isystem /root/miniconda/include -fopenmp".split()
def dump(src, filt, cache='/tmp/o2c_cache'):
    os.makedirs(cache, exist_ok=True)
    key = hashlib.sha1((src+filt+str(os.path.getmtime(src))).encode()).hexdigest()
    p = os.path.join(cache, key+'.json')
    if not os.path.exists(p):
        cmd = ['clang++','-fsyntax-only']+FLAGS+['-Xclang','-ast-dump=json','-Xclang','-ast-dump-filter='+filt, src]
        with open(p,'w') as f:
            r = subprocess.run(cmd, stdout=f, stderr=subprocess.PIPE, text=True)
        if r.returncode != 0:
            sys.stderr.write(r.stderr[-2000:])
    s = open(p).read()
    dec = json.JSONDecoder(); i=0; objs=[]
    while i < len(s):
        while i < len(s) and s[i] in ' \n\r\t': i+=1
        if i >= len(s): break
        if s.startswith('Dumping', i):
            i = s.index('\n', i); continue
        o,j = dec.raw_decode(s,i); objs.append(o); i=j
    return objs
def walk(n):
    yield n
    for k in n.get('inner',[]):
        yield from walk(k)
