#!/usr/bin/env python3
"""Throw-away prototype of the AST-driven C++ -> C extractor (feasibility probe)."""
import re, sys
sys.path.insert(0, '/verif/probes/o2c')
from astload import dump, walk

class Abort(Exception): pass

SRC_CACHE = {}
def src_text(node):
    r = node.get('range', {})
    b, e = r.get('begin', {}), r.get('end', {})
    b = b.get('expansionLoc', b); e = e.get('expansionLoc', e)
    f = b.get('file') or node.get('_file')
    return None

def ctype(q):
    """map a (desugared) C++ type spelling to a C type"""
    q = q.replace('const ', '').replace(' const', '').strip()
    q = q.replace('std::', '')
    ref = q.endswith('&')
    q = q.rstrip('&').strip()
    m = {'uint64_t':'uint64_t','int64_t':'int64_t','unsigned long':'uint64_t','long':'int64_t',
         'int':'int','unsigned int':'unsigned','double':'real_t','float':'float','bool':'_Bool',
         'size_t':'size_t','array::size_type':'size_t','char':'char'}
    if q in m: t = m[q]
    elif re.match(r'array<double, (\d+)>(::value_type)?$', q):
        n = re.match(r'array<double, (\d+)>', q).group(1)
        t = 'real_t' if q.endswith('value_type') else f'struct arr_real_{n}'
    elif re.match(r'tuple<int, int(, int)?>$', q):
        t = 'struct tuple_' + '_'.join(['int']*(q.count('int')))
    elif q.startswith('__tuple_element_t<'): t = 'int'
    elif q.endswith('::ValueType') or q == 'ValueType': t = 'real_t'
    elif q.startswith('Opm::EclIO::eclArrType') or q == 'eclArrType': t = 'int'
    elif q.startswith('Opm::DenseAd::Evaluation<double, '):
        n = re.search(r'Evaluation<double, (\d+)', q).group(1); t = f'struct Eval{n}'
    else: raise Abort('type '+q)
    return t + (' *' if ref else '')

class Tr:
    def __init__(self): self.dropped = []; self.selfname='self'
    # ---------- expressions ----------
    def e(self, n):
        k = n['kind']; inner = n.get('inner', [])
        if k in ('ImplicitCastExpr','CXXStaticCastExpr','CXXFunctionalCastExpr','CStyleCastExpr'):
            ck = n.get('castKind')
            x = self.e(inner[0])
            if ck in ('LValueToRValue','NoOp','FunctionToPointerDecay','ArrayToPointerDecay','ConstructorConversion'):
                return x
            if ck in ('IntegralCast','IntegralToFloating','FloatingCast','IntegralToBoolean','FloatingToIntegral'):
                return f'(({ctype(n["type"].get("desugaredQualType", n["type"]["qualType"]))})({x}))'
            raise Abort('cast '+str(ck))
        if k == 'ParenExpr': return '(' + self.e(inner[0]) + ')'
        if k == 'IntegerLiteral': return n['value']
        if k == 'FloatingLiteral': return 'REAL_LIT(' + n['value'] + ')'
        if k == 'CXXBoolLiteralExpr': return '1' if n['value'] else '0'
        if k == 'DeclRefExpr':
            d = n['referencedDecl']
            if d['kind'] == 'ParmVarDecl' and d['type']['qualType'].endswith('&'):
                return '(*' + d['name'] + ')'
            return d['name']
        if k == 'CXXThisExpr': return self.selfname
        if k == 'MemberExpr':
            base = self.e(inner[0])
            if base.startswith('(*') and base.endswith(')') and not n.get('isArrow'):
                return base[2:-1] + '->' + n['name']
            return base + ('->' if n.get('isArrow') else '.') + n['name']
        if k in ('BinaryOperator','CompoundAssignOperator'):
            return f'{self.e(inner[0])} {n["opcode"]} {self.e(inner[1])}'
        if k == 'UnaryOperator':
            op = n['opcode']
            if n.get('isPostfix'): return self.e(inner[0]) + op
            return op + self.e(inner[0])
        if k == 'ConditionalOperator':
            return f'({self.e(inner[0])} ? {self.e(inner[1])} : {self.e(inner[2])})'
        if k == 'CXXOperatorCallExpr':
            callee = inner[0]; name = self.callee_name(callee)
            if name == 'operator[]':
                objt = inner[1]['type']['qualType']
                if 'std::array<' in objt or objt.startswith('const std::array') :
                    return f'{self.e(inner[1])}.a[{self.e(inner[2])}]'.replace(')->','->').replace('(*','(*')
            raise Abort('opcall '+name)
        if k == 'CXXMemberCallExpr':
            me = inner[0]; mname = me['name']; obj = me['inner'][0]
            o = self.e(obj)
            ptr = o if me.get('isArrow') else '&' + o
            if ptr.startswith('&(*') and ptr.endswith(')'): ptr = ptr[3:-1]
            args = ', '.join([ptr] + [self.e(a) for a in inner[1:]])
            return f'{self.cls}__{mname}({args})'
        if k == 'CallExpr':
            name = self.callee_name(inner[0]); args = inner[1:]
            if name == 'get':
                idx = re.search(r'__tuple_element_t<(\d+)UL', n['type']['qualType']).group(1)
                return f'{self.e(args[0])}._{idx}'
            if name in ('sqrt','log','exp','pow','fabs','sin','cos'):
                return f'v_{name}(' + ', '.join(self.e(a) for a in args) + ')'
            if name in ('min','max'):
                return f'v_{name}_real(' + ', '.join(self.e(a) for a in args) + ')'
            if name in self.known_fns:
                return f'{name}(' + ', '.join(self.e(a) for a in args) + ')'
            raise Abort('call '+name)
        if k in ('MaterializeTemporaryExpr','ExprWithCleanups','CXXBindTemporaryExpr'):
            return self.e(inner[0])
        raise Abort('expr '+k)
    def callee_name(self, c):
        for x in walk(c):
            if x['kind'] == 'DeclRefExpr': return x['referencedDecl']['name']
        raise Abort('callee')
    # ---------- statements ----------
    def has_throw(self, n): return any(x['kind']=='CXXThrowExpr' for x in walk(n))
    def is_string_decl(self, n):
        return n['kind']=='DeclStmt' and all('string' in v.get('type',{}).get('qualType','') for v in n['inner'])
    def s(self, n, ind=1):
        I = '    '*ind; k = n['kind']; inner = n.get('inner', [])
        if k == 'CompoundStmt':
            return I[:-4] + '{\n' + ''.join(self.s(x, ind) for x in inner) + I[:-4] + '}\n'
        if self.has_throw(n) and k in ('DoStmt','ExprWithCleanups','CXXThrowExpr'):
            self.dropped.append(('throw', n['range']['begin'].get('line')))
            return I + 'VERIF_THROW();\n'
        if self.is_string_decl(n):
            self.dropped.append(('string-decl', [v['name'] for v in n['inner']])); return ''
        if k == 'DeclStmt':
            out = ''
            for v in inner:
                t = ctype(v['type'].get('desugaredQualType', v['type']['qualType']))
                init = ''
                if v.get('inner'): init = ' = ' + self.e(v['inner'][-1])
                out += f'{I}{t} {v["name"]}{init};\n'
            return out
        if k == 'IfStmt':
            c = self.e(inner[0]); out = f'{I}if ({c})\n' + self.blk(inner[1], ind)
            if len(inner) > 2: out += f'{I}else\n' + self.blk(inner[2], ind)
            return out
        if k == 'ReturnStmt':
            x = self.e(inner[0]) if inner else ''
            if x == '*self' or x == '(*self)': return I + 'return;\n'
            return f'{I}return {x};\n'
        if k == 'ParenExpr' and any(x.get('kind')=='CallExpr' and self.callee_name(x['inner'][0])=='__assert_fail' for x in walk(n)):
            cond = n['inner'][0]['inner'][0]
            return f'{I}VERIF_ASSERT({self.e(cond)});\n'
        if k in ('BinaryOperator','CompoundAssignOperator','UnaryOperator','CallExpr','CXXMemberCallExpr','CXXOperatorCallExpr','ExprWithCleanups'):
            return I + self.e(n) + ';\n'
        raise Abort('stmt '+k)
    def blk(self, n, ind):
        if n['kind'] == 'CompoundStmt': return self.s(n, ind+1)
        return self.s(n, ind+1)
    def fn(self, f, cls=None, known=()):
        self.cls = cls; self.known_fns = set(known)
        params = [p for p in f['inner'] if p['kind']=='ParmVarDecl']
        body = [p for p in f['inner'] if p['kind']=='CompoundStmt'][0]
        rt = f['type']['qualType'].split('(')[0].strip()
        ps = [f'{ctype(p["type"].get("desugaredQualType", p["type"]["qualType"]))} {p["name"]}' for p in params]
        name = f['name']
        if cls:
            ps = [f'struct {cls} *self'] + ps
            name = cls + '__' + {'operator*=':'op_mul_assign','operator/=':'op_div_assign'}.get(name, name)
            rts = 'void' if rt.endswith('&') and 'Evaluation' in rt else ctype(rt)
        else: rts = ctype(rt)
        return f'{rts} {name}({", ".join(ps)})\n' + self.s(body, 1)

if __name__ == '__main__':
    which = sys.argv[1]
    t = Tr()
    if which == 'size':
        objs = dump('/repo/opm/io/eclipse/EclUtil.cpp', 'sizeOnDiskBinary')
        f = [o for o in objs if any(k['kind']=='CompoundStmt' for k in o.get('inner',[]))][0]
        print(t.fn(f, known=['block_size_data_binary']))
    elif which == 'rad':
        objs = dump('/repo/opm/input/eclipse/Schedule/Well/WellConnections.cpp', 'effectiveRadius')
        print(t.fn(objs[0]))
    elif which == 'ad':
        objs = dump('/verif/probes/o2c/drv_ad.cpp', 'Opm::DenseAd::Evaluation')
        spec = objs[-1]
        for name in ('operator*=', 'operator/='):
            f = [k for k in spec['inner'] if k.get('name')==name and k['kind']=='CXXMethodDecl'][0]
            print(t.fn(f, cls='Eval3'))
    print('/* dropped:', t.dropped, '*/')
