typedef __CPROVER_real real_t; typedef __CPROVER_integer int_t;
real_t nondet_real(void); int_t nondet_mint(void);
/* memoised UF stubs */
#define NM 4
struct memo1 { real_t x[NM], y[NM]; int n; };
struct memo1 m_sin = { .n = 0 }, m_cos = { .n = 0 };
static real_t uf1(struct memo1 *m, real_t x){ for (int i=0;i<m->n;i++) if (m->x[i]==x) return m->y[i]; real_t y = nondet_real(); __CPROVER_assert(m->n < NM, "memo capacity"); m->x[m->n]=x; m->y[m->n]=y; m->n++; return y; }
static real_t v_sin(real_t x){ return uf1(&m_sin, x); }
static real_t v_cos(real_t x){ return uf1(&m_cos, x); }
struct Eval3 { real_t data_[4]; };
/* as extracted from Math.hpp sin<double,3> (generic loop over result.size()) */
static struct Eval3 ad_sin(const struct Eval3 *x)
{
    struct Eval3 result = *x;
    result.data_[0] = v_sin(x->data_[0]);
    const real_t df_dx = v_cos(x->data_[0]);
    for (int curVarIdx = 0; curVarIdx < 3; ++curVarIdx)
        result.data_[1 + curVarIdx] = df_dx * x->data_[1 + curVarIdx];
    return result;
}
int main(void){
  struct Eval3 x; struct Eval3 r = ad_sin(&x);
  __CPROVER_assert(r.data_[0] == v_sin(x.data_[0]), "value");
  for (int i=1;i<4;i++) __CPROVER_assert(r.data_[i] == v_cos(x.data_[0]) * x.data_[i], "chain rule slot");
  /* math ints with negative constants */
  int_t n = nondet_mint(); __CPROVER_assume(n >= 0);
  int_t n1 = n - (n/32768)*32768; int_t n2 = n/32768 - 10;
  __CPROVER_assert(n1 + 32768*(n2 + 10) == n, "split/combine");
  __CPROVER_assert(0, "reach");
}
