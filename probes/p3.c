typedef __CPROVER_rational real_t;
typedef unsigned long size_m;
real_t nondet_real(void); size_m nondet_size(void);
struct tab { real_t xValues_[__CPROVER_constant_infinity_uint]; size_m xValues__size; };
int verif_thrown;
static size_m findSegmentIndex(const struct tab *self, real_t x)
{
        if (x <= self->xValues_[1])
            return 0;
        else if (x >= self->xValues_[self->xValues__size - 2])
            return self->xValues__size - 2;
        else {
            size_m lowerIdx = 1;
            size_m upperIdx = self->xValues__size - 2;
            /* ---- loop 0 under contract (source-level instrumentation) ---- */
#define INV0 (1 <= lowerIdx && lowerIdx < upperIdx && upperIdx <= self->xValues__size - 2 \
              && self->xValues_[lowerIdx] <= x && x < self->xValues_[upperIdx])
#define DEC0 (upperIdx - lowerIdx)
            __CPROVER_assert(INV0, "loop0 invariant base");
            lowerIdx = nondet_size(); upperIdx = nondet_size();
            __CPROVER_assume(INV0);
            { size_m dec_old = DEC0;
              if (lowerIdx + 1 < upperIdx) {
                size_m pivotIdx = (lowerIdx + upperIdx) / 2;
                if (x < self->xValues_[pivotIdx])
                    upperIdx = pivotIdx;
                else
                    lowerIdx = pivotIdx;
                __CPROVER_assert(INV0, "loop0 invariant step");
                __CPROVER_assert(DEC0 < dec_old && DEC0 >= 0, "loop0 decreases");
                __CPROVER_assume(0);
              }
            }
            if (self->xValues_[lowerIdx] > x || x > self->xValues_[lowerIdx + 1]) {
                verif_thrown = 1; return 0;
            }
            return lowerIdx;
        }
}
int main(void){
  struct tab t; real_t x = nondet_real();
  __CPROVER_assume(t.xValues__size >= 2 && t.xValues__size <= (1UL<<40));
  /* requires: x within table range, no NaN (reals) */
  __CPROVER_assume(t.xValues_[0] <= x && x <= t.xValues_[t.xValues__size-1]);
  /* requires: sorted at the two end segments */
  __CPROVER_assume(t.xValues_[0] <= t.xValues_[1] && t.xValues_[t.xValues__size-2] <= t.xValues_[t.xValues__size-1]);
  verif_thrown = 0;
  size_m s = findSegmentIndex(&t, x);
  __CPROVER_assert(!verif_thrown, "never throws in range");
  __CPROVER_assert(0 <= s && s <= t.xValues__size - 2, "segment index range");
  __CPROVER_assert(t.xValues_[s] <= x && x <= t.xValues_[s+1], "bracket");
  __CPROVER_assert(0, "reach");
  return 0;
}
