typedef __CPROVER_real real_t;
real_t nondet_real(void);
static real_t RQ(long long n, long long d){ real_t a = n; real_t b = d; return a/b; }
struct arr8 { real_t a[8]; };
real_t C(const struct arr8* rr, int i1, int i2, int i3){
   int g = i1 + i2 * 2 + i3 * 4;

   if (g == 0)
       return rr->a[0];

   if (g == 1)
       return rr->a[1] - rr->a[0];

   if (g == 2)
       return rr->a[2] - rr->a[0];

   if (g == 3)
       return rr->a[3] + rr->a[0] - rr->a[2] - rr->a[1];

   if (g == 4)
       return rr->a[4] - rr->a[0];

   if (g == 5)
       return rr->a[5] + rr->a[0] - rr->a[4] - rr->a[1];

   if (g == 6)
       return rr->a[6] + rr->a[0] - rr->a[4] - rr->a[2];

   return  rr->a[7] + rr->a[4] + rr->a[2] + rr->a[1] - rr->a[6] - rr->a[5] - rr->a[3] - rr->a[0];
}



struct pqr_t { int pb, pg, qa, qg, ra, rb; };
static real_t v_fabs(real_t x){ return x < 0 ? -x : x; }
real_t calculateCellVol(const struct arr8 *X, const struct arr8 *Y, const struct arr8 *Z){
    static const int permutation[6][3] = {{ 0, 1, 2},{ 0, 2, 1},{ 1, 2, 0},{ 1, 0, 2},{ 2, 0, 1},{ 2, 1, 0}};
    static const struct pqr_t pqr_array[64] = {{0, 0, 0, 0, 0, 0}, {0, 0, 0, 0, 0, 1}, {0, 0, 0, 0, 1, 0}, {0, 0, 0, 0, 1, 1},
            {0, 0, 0, 1, 0, 0}, {0, 0, 0, 1, 0, 1}, {0, 0, 0, 1, 1, 0}, {0, 0, 0, 1, 1, 1},
            {0, 0, 1, 0, 0, 0}, {0, 0, 1, 0, 0, 1}, {0, 0, 1, 0, 1, 0}, {0, 0, 1, 0, 1, 1},
            {0, 0, 1, 1, 0, 0}, {0, 0, 1, 1, 0, 1}, {0, 0, 1, 1, 1, 0}, {0, 0, 1, 1, 1, 1},
            {0, 1, 0, 0, 0, 0}, {0, 1, 0, 0, 0, 1}, {0, 1, 0, 0, 1, 0}, {0, 1, 0, 0, 1, 1},
            {0, 1, 0, 1, 0, 0}, {0, 1, 0, 1, 0, 1}, {0, 1, 0, 1, 1, 0}, {0, 1, 0, 1, 1, 1},
            {0, 1, 1, 0, 0, 0}, {0, 1, 1, 0, 0, 1}, {0, 1, 1, 0, 1, 0}, {0, 1, 1, 0, 1, 1},
            {0, 1, 1, 1, 0, 0}, {0, 1, 1, 1, 0, 1}, {0, 1, 1, 1, 1, 0}, {0, 1, 1, 1, 1, 1},
            {1, 0, 0, 0, 0, 0}, {1, 0, 0, 0, 0, 1}, {1, 0, 0, 0, 1, 0}, {1, 0, 0, 0, 1, 1},
            {1, 0, 0, 1, 0, 0}, {1, 0, 0, 1, 0, 1}, {1, 0, 0, 1, 1, 0}, {1, 0, 0, 1, 1, 1},
            {1, 0, 1, 0, 0, 0}, {1, 0, 1, 0, 0, 1}, {1, 0, 1, 0, 1, 0}, {1, 0, 1, 0, 1, 1},
            {1, 0, 1, 1, 0, 0}, {1, 0, 1, 1, 0, 1}, {1, 0, 1, 1, 1, 0}, {1, 0, 1, 1, 1, 1},
            {1, 1, 0, 0, 0, 0}, {1, 1, 0, 0, 0, 1}, {1, 1, 0, 0, 1, 0}, {1, 1, 0, 0, 1, 1},
            {1, 1, 0, 1, 0, 0}, {1, 1, 0, 1, 0, 1}, {1, 1, 0, 1, 1, 0}, {1, 1, 0, 1, 1, 1},
            {1, 1, 1, 0, 0, 0}, {1, 1, 1, 0, 0, 1}, {1, 1, 1, 0, 1, 0}, {1, 1, 1, 0, 1, 1},
            {1, 1, 1, 1, 0, 0}, {1, 1, 1, 1, 0, 1}, {1, 1, 1, 1, 1, 0}, {1, 1, 1, 1, 1, 1}};

    
    real_t volume = 0;
    const struct arr8* vect[3];
    const struct arr8* data[3] = {X, Y, Z};
    real_t perm_sign = 1;
    for (int pi = 0; pi < 6; pi++) {
        const int *perm = permutation[pi];
        for (int perm_index = 0; perm_index < 3; perm_index++)
            vect[perm_index] = data[perm[perm_index]];
        for (int qi = 0; qi < 64; qi++) {
            const struct pqr_t pqr = pqr_array[qi];
            const real_t cprod = C(vect[0], 1, pqr.pb, pqr.pg)*C(vect[1], pqr.qa, 1, pqr.qg)*C(vect[2], pqr.ra, pqr.rb, 1);
            const real_t denom = (pqr.qa + pqr.ra + 1) * (pqr.pb + pqr.rb + 1) * (pqr.pg + pqr.qg + 1);
            volume += perm_sign * cprod / denom;
        }
        perm_sign *= -1;
    }
    return v_fabs(volume);
}
int main(void){
  real_t x0=nondet_real(), y0=nondet_real(), z0=nondet_real(), dx=nondet_real(), dy=nondet_real(), dz=nondet_real();
  __CPROVER_assume(dx>0 && dy>0 && dz>0);
  struct arr8 X, Y, Z;
  for (int c=0;c<8;c++){ X.a[c] = x0 + ((c&1)?dx:0); Y.a[c] = y0 + ((c&2)?dy:0); Z.a[c] = z0 + ((c&4)?dz:0); }
  real_t v = calculateCellVol(&X,&Y,&Z);
  __CPROVER_assert(v == dx*dy*dz, "box volume");
  __CPROVER_assert(0, "reach");
}
