#include <stddef.h>
#include <stdint.h>
static int v_isdigit(int c){ return c >= '0' && c <= '9'; }
/* returns position of first non-digit (== len if none) */
size_t scan_digits(const char *token, size_t len)
__CPROVER_requires(len <= 4096 && __CPROVER_is_fresh(token, len))
__CPROVER_assigns()
__CPROVER_ensures(__CPROVER_return_value <= len)
__CPROVER_ensures(__CPROVER_forall { size_t k; (k < __CPROVER_return_value) ==> (token[k] >= '0' && token[k] <= '9') })
__CPROVER_ensures(__CPROVER_return_value == len || !(token[__CPROVER_return_value] >= '0' && token[__CPROVER_return_value] <= '9'))
{
        size_t pos = 0;
        for (; pos < len; ++pos)
        __CPROVER_assigns(pos)
        __CPROVER_loop_invariant(pos <= len)
        __CPROVER_loop_invariant(__CPROVER_forall { size_t k; (k < pos) ==> (token[k] >= '0' && token[k] <= '9') })
        __CPROVER_decreases(len - pos)
        {
            if (!v_isdigit(token[pos]))
                break;
        }
        return pos;
}
void h(void){ const char *t; size_t n; scan_digits(t,n); }
