#include <stdint.h>
uint64_t size_bin(int64_t num, int sizeOfElement, int maxBlockSize)
{
  uint64_t size = 0;
  if (num > 0) {
            int maxNumberOfElements = maxBlockSize / sizeOfElement;
            uint64_t numBlocks = (uint64_t)(num)/(uint64_t)(maxNumberOfElements);
            uint64_t rest = (uint64_t)(num) - numBlocks*(uint64_t)(maxNumberOfElements);
            uint64_t size2Inte = (uint64_t)(4) * 2;
            uint64_t sizeFullBlocks = numBlocks * ((uint64_t)(maxBlockSize) + size2Inte);
            uint64_t sizeLastBlock = 0;
            if (rest > 0)
                sizeLastBlock = rest * (uint64_t)(sizeOfElement) + size2Inte;
            size = sizeFullBlocks + sizeLastBlock;
  }
  return size;
}
int64_t nondet_i64(void);
int main(void){
  int64_t num = nondet_i64();
  __CPROVER_assume(num >= 0 && num < (1LL<<40));
  uint64_t r = size_bin(num, 4, 4000);
  return 0;
}
