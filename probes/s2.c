#include <stddef.h>
struct sv { char data[__CPROVER_constant_infinity_uint]; size_t size; };
size_t nondet_size(void);
#define ISDIGIT(c) ((c) >= '0' && (c) <= '9')
static size_t scan_digits(const struct sv *token)
{
        size_t pos = 0;
#define INV (pos <= token->size && __CPROVER_forall { size_t k; (k < pos) ==> ISDIGIT(token->data[k]) })
        __CPROVER_assert(INV, "loop0 base");
        pos = nondet_size();
        __CPROVER_assume(INV);
        { size_t d0 = token->size - pos;
          if (pos < token->size) {
            __CPROVER_assert(pos < token->size, "bounds token[pos]");
            if (!ISDIGIT(token->data[pos]))
                goto loop0_break;
            ++pos;
            __CPROVER_assert(INV, "loop0 step");
            __CPROVER_assert(token->size - pos < d0, "loop0 decreases");
            __CPROVER_assume(0);
          }
        }
loop0_break:;
        return pos;
}
int main(void){
  struct sv t; __CPROVER_assume(t.size <= (1UL<<40));
  size_t r = scan_digits(&t);
  __CPROVER_assert(r <= t.size, "post range");
  __CPROVER_assert(__CPROVER_forall { size_t k; (k < r) ==> ISDIGIT(t.data[k]) }, "post all digits before");
  __CPROVER_assert(r == t.size || !ISDIGIT(t.data[r]), "post stops at non-digit");
  __CPROVER_assert(0, "reach");
}
