typedef __CPROVER_rational real_t;
real_t nondet_real(void);
struct tab { real_t xValues_[__CPROVER_constant_infinity_uint]; real_t yValues_[__CPROVER_constant_infinity_uint]; unsigned long n; };
static real_t eval_seg(const struct tab *self, real_t x, unsigned long segIdx)
{
        real_t x0 = self->xValues_[segIdx];
        real_t x1 = self->xValues_[segIdx + 1];
        real_t y0 = self->yValues_[segIdx];
        real_t y1 = self->yValues_[segIdx + 1];
        return y0 + (y1 - y0)*(x - x0)/(x1 - x0);
}
int main(void){
  struct tab t;   /* local => nondet contents */
  unsigned long seg; real_t x = nondet_real();
  __CPROVER_assume(seg < 1000000);
  __CPROVER_assume(t.xValues_[seg] < t.xValues_[seg+1]);
  __CPROVER_assume(t.xValues_[seg] <= x && x <= t.xValues_[seg+1]);
  real_t r = eval_seg(&t, x, seg);
  real_t lo = t.yValues_[seg] < t.yValues_[seg+1] ? t.yValues_[seg] : t.yValues_[seg+1];
  real_t hi = t.yValues_[seg] < t.yValues_[seg+1] ? t.yValues_[seg+1] : t.yValues_[seg];
  __CPROVER_assert(lo <= r && r <= hi, "bracket");
  __CPROVER_assert(x != t.xValues_[seg] || r == t.yValues_[seg], "node left");
  __CPROVER_assert(x != t.xValues_[seg+1] || r == t.yValues_[seg+1], "node right");
  __CPROVER_assert(r == t.yValues_[seg], "must fail (reachability witness)");
  return 0;
}
