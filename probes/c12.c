typedef __CPROVER_real real_t;
real_t nondet_real(void);
int main(void){ real_t z = 0; real_t w = z - 1; real_t s = 1; s *= -1; real_t v = nondet_real(); __CPROVER_assert(w*v + v == 0, "c"); __CPROVER_assert(s*v + v == 0, "c2"); real_t q = (v*v - v)/(v*v+1); __CPROVER_assert(q*(v*v+1) == v*v - v, "div"); __CPROVER_assert(0,"reach"); }
