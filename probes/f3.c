#include <stddef.h>
#include <stdint.h>
typedef double real_t;
struct cell_index { size_t global_index, active_index, data_index; };
struct vec_real { real_t *data; size_t size; };
struct vec_stat { unsigned char *data; size_t size; };
struct vec_cell { size_t size; };                 /* abstract sequence: elements via accessor contract */
enum { uninitialized = 0, deck_value = 1, empty_default = 2, valid_default = 3 };
#define has_value(s) ((s) == deck_value || (s) == valid_default)

size_t ghost_g;      /* arbitrary ghost cell */
size_t ghost_pos;    /* the unique position at which ghost_g may occur (Box invariant, instance form) */
size_t ghost_n;      /* number of active cells (== data->size) */
_Bool  ghost_seen;

struct cell_index vec_cell_at(const struct vec_cell *v, size_t k)
__CPROVER_requires(k < v->size)
__CPROVER_assigns()
__CPROVER_ensures(__CPROVER_return_value.active_index < ghost_n)
__CPROVER_ensures(__CPROVER_return_value.active_index == ghost_g ==> k == ghost_pos)
;

int multiply_scalar(struct vec_real *data, struct vec_stat *value_status, const real_t value, const struct vec_cell *index_list)
__CPROVER_requires(__CPROVER_is_fresh(data, sizeof(*data)) && __CPROVER_is_fresh(value_status, sizeof(*value_status)) && __CPROVER_is_fresh(index_list, sizeof(*index_list)))
__CPROVER_requires(data->size <= 1000000 && value_status->size == data->size && ghost_n == data->size && index_list->size <= 100000000)
__CPROVER_requires(__CPROVER_is_fresh(data->data, data->size * sizeof(real_t)))
__CPROVER_requires(__CPROVER_is_fresh(value_status->data, value_status->size))
__CPROVER_requires(ghost_g < data->size && !ghost_seen)
__CPROVER_assigns(__CPROVER_object_whole(data->data), ghost_seen)
__CPROVER_ensures( (ghost_seen && has_value(value_status->data[ghost_g])) ==> data->data[ghost_g] == __CPROVER_old(data->data[ghost_g]) * value )
__CPROVER_ensures( !(ghost_seen && has_value(value_status->data[ghost_g])) ==> data->data[ghost_g] == __CPROVER_old(data->data[ghost_g]) )
__CPROVER_ensures( ghost_seen ==> ghost_pos < index_list->size )
{
    int unInit = 0;
    real_t old_g = data->data[ghost_g];
    for (size_t it = 0; it < index_list->size; ++it)
    __CPROVER_assigns(it, unInit, ghost_seen, __CPROVER_object_whole(data->data))
    __CPROVER_loop_invariant(it <= index_list->size && 0 <= unInit && unInit <= it)
    __CPROVER_loop_invariant( ghost_seen ==> ghost_pos < it )
    __CPROVER_loop_invariant( (ghost_seen && has_value(value_status->data[ghost_g])) ==> data->data[ghost_g] == old_g * value )
    __CPROVER_loop_invariant( !(ghost_seen && has_value(value_status->data[ghost_g])) ==> data->data[ghost_g] == old_g )
    __CPROVER_decreases(index_list->size - it)
    {
        const struct cell_index cell_index = vec_cell_at(index_list, it);
        const size_t ix = cell_index.active_index;
        if (ix == ghost_g) ghost_seen = 1;            /* ghost statement */
        if (has_value(value_status->data[ix])) {
            data->data[ix] *= value;
        }
        else {
            ++unInit;
        }
    }
    return unInit;
}
void h(void){ struct vec_real *d; struct vec_stat *s; struct vec_cell *l; real_t v; multiply_scalar(d,s,v,l); }
