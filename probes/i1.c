typedef __CPROVER_integer int_t;
int_t size_bin(int_t num, int_t s, int_t blk)
{
  int_t maxBlockSize = blk*s;
  int_t numBlocks = num / blk;
  int_t rest = num - numBlocks*blk;
  int_t sizeFull = numBlocks*(maxBlockSize + 8);
  int_t last = 0;
  if (rest > 0) last = rest*s + 8;
  return sizeFull + last;
}
int_t nondet_int(void);
int main(void){
  int_t num = nondet_int();
  __CPROVER_assume(num >= 0);
  int_t r = size_bin(num, 4, 1000);
  __CPROVER_assert(r == num*4 + 8*((num+999)/1000), "closed form");
  int_t r1 = size_bin(num+1, 4, 1000);
  __CPROVER_assert(r1 == r + 4 + ((num - (num/1000)*1000 == 0) ? 8 : 0), "inductive form");
  return 0;
}
