typedef __CPROVER_rational real_t;
int main(void){
  real_t u,v,du,dv;
  __CPROVER_assume(v != 0);
  real_t q = (v*du + u*dv)/(v*v);
  __CPROVER_assert(q == du/v - u*dv/(v*v), "quot rule wrong sign");
  return 0;
}
