typedef __CPROVER_rational real_t;
real_t nondet_real(void);
static real_t RQ(long long n, long long d){ real_t a = n; real_t b = d; return a/b; }
/* ---- axiomatised transcendental stubs (trusted): memoised for functional consistency ---- */
#define NM 4
real_t exp_x[NM], exp_y[NM]; int exp_n = 0;
real_t log_x[NM], log_y[NM]; int log_n = 0;
real_t v_exp(real_t x){
  for (int i=0;i<exp_n;i++) if (exp_x[i]==x) return exp_y[i];
  for (int i=0;i<log_n;i++) if (log_y[i]==x) { /* exp(log(a)) = a */ return log_x[i]; }
  real_t y = nondet_real(); __CPROVER_assume(y > 0);
  __CPROVER_assert(exp_n < NM, "memo capacity");
  exp_x[exp_n]=x; exp_y[exp_n]=y; exp_n++; return y;
}
real_t v_log(real_t x){
  __CPROVER_assert(x > 0, "log domain");
  for (int i=0;i<log_n;i++) if (log_x[i]==x) return log_y[i];
  for (int i=0;i<exp_n;i++) if (exp_y[i]==x) { /* log(exp(t)) = t */ return exp_x[i]; }
  real_t y = nondet_real();
  if (x == 1) y = 0;
  __CPROVER_assert(log_n < NM, "memo capacity");
  log_x[log_n]=x; log_y[log_n]=y; log_n++; return y;
}
static real_t v_min(real_t a, real_t b){ return b < a ? b : a; }
/* ---- as extracted ---- */
static real_t inverse_peaceman(real_t cf, real_t kh, real_t rw, real_t skin, real_t PI2)
{
    real_t alpha = PI2 * kh / cf - skin;
    return rw * v_exp(alpha);
}
static real_t peacemanDenominator(real_t r0, real_t rw, real_t skin_factor)
{
    return v_log(r0 / v_min(rw, r0)) + skin_factor;
}
int main(void){
  real_t CF=nondet_real(), Kh=nondet_real(), rw=nondet_real(), S=nondet_real();
  real_t angle = RQ(6283185307179586LL, 1000000000000000LL);
  __CPROVER_assume(CF>0 && Kh>0 && rw>0);
  /* (a) with the same constant */
  real_t r0 = inverse_peaceman(CF,Kh,rw,S, RQ(314159265LL,100000000LL)*2);
  __CPROVER_assume(r0 >= rw);
  real_t den = peacemanDenominator(r0, rw, S);
  __CPROVER_assert(CF*den == angle*Kh, "Peaceman relation (consistent 2pi)");
  __CPROVER_assert(0,"reach");
}
