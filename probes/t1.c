#include <stddef.h>
#ifndef N
#define N 12
#endif
/* stubs for std::find / std::find_if(is_quote) on const char* ranges (assumed STL semantics, here given as reference code) */
static const char* v_find(const char* b, const char* e, char c){ for (; b != e; ++b) if (*b == c) return b; return e; }
static const char* v_find_quote(const char* b, const char* e){ for (; b != e; ++b) if (*b == '\'' || *b == '"') return b; return e; }
/* ---- as extracted from Parser.cpp str:: ---- */
static const char* find_comment(const char* begin, const char* end) {
        const char* itr = v_find( begin, end, '-' );
        for( ; itr != end; itr = v_find( itr + 1, end, '-' ) )
            if( (itr + 1) != end &&  *( itr + 1 ) == '-' ) return itr;
        return end;
}
static const char* find_terminator(const char* begin, const char* end) {
    const char* pos = find_comment( begin, end );
    if( pos == begin || pos == end) return pos;
    const char* qbegin = v_find_quote( begin, end );
    if( qbegin == end || qbegin > pos )
        return pos;
    const char* qend = v_find( qbegin + 1, end, *qbegin );
    if( qend == end ) return end;
    return find_terminator( qend + 1, end );
}
/* ---- reference scanner written from the rule in the property statement ---- */
static size_t spec_comment_start(const char* s, size_t n){
  char q = 0;
  for (size_t k = 0; k < n; ++k) {
    if (q) { if (s[k] == q) q = 0; }
    else if (s[k] == '\'' || s[k] == '"') q = s[k];
    else if (s[k] == '-' && k + 1 < n && s[k+1] == '-') return k;
  }
  return n;
}
int main(void){
  char buf[N]; size_t n; __CPROVER_assume(n <= N);
  const char* r = find_terminator(buf, buf + n);
  size_t got = (size_t)(r - buf);
  __CPROVER_assert(got == spec_comment_start(buf, n), "strip_comments agrees with reference scanner");
}
