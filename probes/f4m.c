#include <stddef.h>
typedef __CPROVER_rational real_t;
struct cell_index { size_t global_index, active_index, data_index; };
struct vec_real { real_t data[__CPROVER_constant_infinity_uint]; size_t size; };
struct vec_stat { unsigned char data[__CPROVER_constant_infinity_uint]; size_t size; };
struct vec_cell { struct cell_index data[__CPROVER_constant_infinity_uint]; size_t size; };
enum { uninitialized = 0, deck_value = 1, empty_default = 2, valid_default = 3 };
#define has_value(s) ((s) == deck_value || (s) == valid_default)
size_t nondet_size(void); int nondet_int(void); _Bool nondet_bool(void); real_t nondet_real(void);

size_t ghost_g, ghost_pos; _Bool ghost_seen;

static int multiply_scalar(struct vec_real *data, struct vec_stat *value_status, const real_t value, const struct vec_cell *index_list)
{
    int unInit = 0;
    real_t old_g = data->data[ghost_g];   /* ghost snapshot */
    size_t it = 0;
    /* ---- loop 0, source-level contract instrumentation ---- */
#define INV (it <= index_list->size && 0 <= unInit && (size_t)unInit <= it \
     && (!ghost_seen || ghost_pos < it) \
     && (!(ghost_seen && has_value(value_status->data[ghost_g])) || data->data[ghost_g] == old_g * value) \
     && ( (ghost_seen && has_value(value_status->data[ghost_g])) || data->data[ghost_g] == old_g) \
     && data->size == size0)
    size_t size0 = data->size;
    __CPROVER_assert(INV, "loop0 base");
    it = nondet_size(); unInit = nondet_int(); ghost_seen = nondet_bool();
    { struct vec_real hv; *data = hv; }
    __CPROVER_assume(INV);
    { size_t dec0 = index_list->size - it;
      if (it < index_list->size) {
        const struct cell_index cell_index = index_list->data[it];
        const size_t ix = cell_index.global_index;
        if (ix == ghost_g) ghost_seen = 1;            /* ghost statement */
        __CPROVER_assert(ix < data->size, "bounds data[ix]");
        if (has_value(value_status->data[ix])) {
            data->data[ix] *= value;
        }
        else {
            ++unInit;
        }
        ++it;
        __CPROVER_assert(INV, "loop0 step");
        __CPROVER_assert(index_list->size - it < dec0, "loop0 decreases");
        __CPROVER_assume(0);
      }
    }
    return unInit;
}
int main(void){
  struct vec_real d; struct vec_stat s; struct vec_cell l; real_t v = nondet_real();
  __CPROVER_assume(d.size <= (1UL<<40) && s.size == d.size && l.size <= 2147483647UL);
  /* Box invariant, quantified (SMT arrays) */
  __CPROVER_assume(__CPROVER_forall { size_t k; (k < l.size) ==> l.data[k].active_index < d.size });
  __CPROVER_assume(__CPROVER_forall { size_t k; (k < l.size && l.data[k].active_index == ghost_g) ==> k == ghost_pos });
  __CPROVER_assume(ghost_g < d.size); ghost_seen = 0;
  real_t old = d.data[ghost_g];
  int r = multiply_scalar(&d, &s, v, &l);
  __CPROVER_assert(!(ghost_seen && has_value(s.data[ghost_g])) || d.data[ghost_g] == old * v, "post touched");
  __CPROVER_assert( (ghost_seen && has_value(s.data[ghost_g])) || d.data[ghost_g] == old, "post frame");
  __CPROVER_assert(!ghost_seen || ghost_pos < l.size, "seen => in list");
  __CPROVER_assert(0, "reach");
  return 0;
}
