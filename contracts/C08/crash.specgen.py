# C08 (3), crash clause: "If writing is cut short at any byte, an unformatted file never yields wrong data: each report
# step either reads back exactly as written or raises an error."  The contract is the reader contract of
# contracts/C07/reader.spec restricted to the clauses this statement needs (exact element count or an exception; never
# data after a short read); the text is derived mechanically from that file so the two cannot drift apart.
import os, sys
src = open(os.path.join(os.path.dirname(os.path.abspath(__file__)), '..', 'C07', 'reader.spec')).read()
drop = ('elements_so_far', 'block_value', 'not_seen_yet', 'elements_in_file_order')
out = []
for ln in src.split('\n'):
    if any(d in ln for d in drop):
        continue
    out.append(ln)
t = '\n'.join(out).replace('@unit reader', '@unit crash')
sys.stdout.write('@@@ crash\n' + t + '\n')
