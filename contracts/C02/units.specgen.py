#!/usr/bin/env python3
"""C02: unit tables.  Spec data below is written from the SI / NIST / Eclipse-manual DEFINITIONS of the
units, independently of Units.hpp; the code's constants and the 12 static tables of UnitSystem.cpp are
extracted from the AST (their initialiser EXPRESSIONS, not their values) and compared over the rationals."""
import sys
from fractions import Fraction as F

MEASURES = ['identity', 'length', 'time', 'runtime', 'density', 'pressure', 'temperature_absolute', 'temperature',
            'viscosity', 'permeability', 'area', 'liquid_surface_volume', 'gas_surface_volume', 'volume',
            'geometric_volume', 'liquid_surface_rate', 'gas_surface_rate', 'rate', 'geometric_volume_rate',
            'pipeflow_velocity', 'transmissibility', 'effective_Kh', 'mass', 'mass_rate', 'gas_oil_ratio',
            'oil_gas_ratio', 'water_cut', 'gas_formation_volume_factor', 'oil_formation_volume_factor',
            'water_formation_volume_factor', 'gas_inverse_formation_volume_factor',
            'oil_inverse_formation_volume_factor', 'water_inverse_formation_volume_factor',
            'liquid_productivity_index', 'gas_productivity_index', 'energy', 'energy_rate', 'icd_strength',
            'aicd_strength', 'polymer_density', 'salinity', 'gas_oil_ratio_rate', 'moles', 'ppm', 'ymodule', 'dfactor']
IDX = {m: i for i, m in enumerate(MEASURES)}

# ---- physical definitions (exact rationals) -------------------------------------------------------------
inch = F(254, 10000)
foot = 12 * inch
day = F(86400)
hour = F(3600)
pound = F(45359237, 100000000)
g0 = F(980665, 100000)
lbf = pound * g0
psi = lbf / (inch * inch)
atm = F(101325)
bar = F(100000)
gallon = 231 * inch ** 3
stb = 42 * gallon
cP = F(1, 1000)
darcy = (F(1, 10000) * cP) / atm * 1 / F(1, 100) * F(1, 100) ** 0     # placeholder, replaced below
# 1 darcy: 1 cm3/s of 1 cP fluid through 1 cm2 under 1 atm/cm  ->  k = q mu L / (A dp)
darcy = (F(1, 100) ** 3 / 1) * cP * F(1, 100) / (F(1, 100) ** 2 * atm)
btu = F(10543503, 10000)          # thermochemical BTU
degF = F(5, 9)

DEFS = {   # Opm::unit constants
    'unit::meter': F(1), 'unit::inch': inch, 'unit::feet': foot, 'unit::second': F(1), 'unit::minute': F(60),
    'unit::hour': hour, 'unit::day': day, 'unit::year': 365 * day, 'unit::gallon': gallon, 'unit::stb': stb,
    'unit::liter': F(1, 1000), 'unit::kilogram': F(1), 'unit::gram': F(1, 1000), 'unit::pound': pound,
    'unit::joule': F(1), 'unit::btu': btu, 'unit::gravity': g0, 'unit::Newton': F(1), 'unit::dyne': F(1, 100000),
    'unit::lbf': lbf, 'unit::Pascal': F(1), 'unit::barsa': bar, 'unit::atm': atm, 'unit::psia': psi,
    'unit::degCelsius': F(1), 'unit::degCelsiusOffset': F(27315, 100), 'unit::degFahrenheit': degF,
    'unit::degFahrenheitOffset': F(45967, 100) * degF, 'unit::Pas': F(1), 'unit::Poise': F(1, 10),
    'unit::ppm': F(1, 1000000), 'unit::darcy': darcy,
    'prefix::micro': F(1, 10 ** 6), 'prefix::milli': F(1, 1000), 'prefix::centi': F(1, 100), 'prefix::deci': F(1, 10),
    'prefix::kilo': F(1000), 'prefix::mega': F(10 ** 6), 'prefix::giga': F(10 ** 9),
}

# ---- base units of the four deck unit systems (Eclipse manual, "Units" chapter) -----------------------------
def system(length, time, mass, pressure, lsv, gsv, rv, tscale, toff, energy, moles):
    return {
        'identity': F(1), 'length': length, 'time': time, 'runtime': F(1), 'density': mass / length ** 3,
        'pressure': pressure, 'temperature_absolute': tscale, 'temperature': tscale, 'viscosity': cP,
        'permeability': darcy / 1000, 'area': length ** 2, 'liquid_surface_volume': lsv, 'gas_surface_volume': gsv,
        'volume': rv, 'geometric_volume': length ** 3, 'mass': mass, 'energy': energy, 'moles': moles,
        'ppm': F(1, 10 ** 6), 'ymodule': F(10 ** 9), 'water_cut': F(1), '_toff': toff,
    }

SYS = {
    'metric': system(F(1), day, F(1), bar, F(1), F(1), F(1), F(1), F(27315, 100), F(1000), F(1000)),
    'field': system(foot, day, pound, psi, stb, 1000 * foot ** 3, stb, degF, F(45967, 100) * degF, btu, 1000 * pound),
    'lab': system(F(1, 100), hour, F(1, 1000), atm, F(1, 100) ** 3, F(1, 100) ** 3, F(1, 100) ** 3, F(1), F(27315, 100), F(1), F(1)),
    'pvt_m': system(F(1), day, F(1), atm, F(1), F(1), F(1), F(1), F(27315, 100), F(1000), F(1000)),
}
# composite measures: the dimensional law that defines each from the base rows  (R(x) = row x of the same table)
LAWS = {
    'liquid_surface_rate': 'R(liquid_surface_volume) / R(time)',
    'gas_surface_rate': 'R(gas_surface_volume) / R(time)',
    'rate': 'R(volume) / R(time)',
    'geometric_volume_rate': 'R(geometric_volume) / R(time)',
    'pipeflow_velocity': 'R(length) / R(runtime)',
    'transmissibility': 'R(viscosity) * R(volume) / (R(time) * R(pressure))',
    'effective_Kh': 'R(permeability) * R(length)',
    'mass_rate': 'R(mass) / R(time)',
    'gas_oil_ratio': 'R(gas_surface_volume) / R(liquid_surface_volume)',
    'oil_gas_ratio': 'R(liquid_surface_volume) / R(gas_surface_volume)',
    'gas_formation_volume_factor': 'R(volume) / R(gas_surface_volume)',
    'oil_formation_volume_factor': 'R(volume) / R(liquid_surface_volume)',
    'water_formation_volume_factor': 'R(volume) / R(liquid_surface_volume)',
    'gas_inverse_formation_volume_factor': 'R(gas_surface_volume) / R(volume)',
    'oil_inverse_formation_volume_factor': 'R(liquid_surface_volume) / R(volume)',
    'water_inverse_formation_volume_factor': 'R(liquid_surface_volume) / R(volume)',
    'liquid_productivity_index': 'R(liquid_surface_volume) / (R(time) * R(pressure))',
    'gas_productivity_index': 'R(gas_surface_volume) / (R(time) * R(pressure))',
    'energy_rate': 'R(energy) / R(time)',
    'icd_strength': 'R(pressure) / (R(geometric_volume_rate) * R(geometric_volume_rate))',
    'aicd_strength': 'R(pressure) / (R(density) * R(geometric_volume_rate) * R(geometric_volume_rate))',
    'polymer_density': 'R(mass) / R(liquid_surface_volume)',
    'salinity': 'R(mass) / R(liquid_surface_volume)',
    'gas_oil_ratio_rate': 'R(gas_oil_ratio) / R(time)',
    'dfactor': 'R(time) / R(gas_surface_volume)',
}


DIMS = {'Length': 'length', 'Time': 'time', 'RunTime': 'runtime', 'Pressure': 'pressure', 'Density': 'density',
        'Viscosity': 'viscosity', 'Permeability': 'permeability', 'Area': 'area',
        'LiquidSurfaceVolume': 'liquid_surface_volume', 'GasSurfaceVolume': 'gas_surface_volume',
        'ReservoirVolume': 'volume', 'GeometricVolume': 'geometric_volume', 'Mass': 'mass',
        'Transmissibility': 'transmissibility', 'Energy': 'energy', 'Moles': 'moles', 'PPM': 'ppm', 'Ymodule': 'ymodule',
        'Salinity': 'salinity', 'PolymerDensity': 'polymer_density', 'Temperature': 'temperature',
        'AbsoluteTemperature': 'temperature_absolute', 'GasDissolutionFactor': 'gas_oil_ratio',
        'OilDissolutionFactor': 'oil_gas_ratio'}


def q(fr):
    return '(((real_t)%d) / ((real_t)%d))' % (fr.numerator, fr.denominator)


def emit():
    out = []
    w = out.append
    w('@@@ tables')
    w('# C02: unit tables (GENERATED by units.specgen.py)')
    w('@unit tables')
    w('@tu opm/input/eclipse/Units/UnitSystem.cpp')
    w('@filter Opm::')
    w('@mode SA')
    w('@timeout 120')
    w('@instantiate ghost_e')
    w('@typemap const double \\* = c_tabid')
    w('@typemap const char \\*const \\* = c_opaque')
    w('@typemap std::(__cxx11::)?basic_string<char.*> = c_opaque')
    w('@typemap std::string = c_opaque')
    w('@typemap std::map<.*> = c_opaque')
    w('@lib ~UnitSystem::addDimension\\(std::.*, double, double\\) = GHOST_ADD_DIM')
    w('@notcovered dimension annotations in share/keywords/*.json and the generated parser code; whole-deck re-expression in another unit system; UnitSystem::parse/parseFactor string splitting')
    w('@trusted spec data: SI/NIST definitions of inch, pound, standard gravity, atm, thermochemical BTU, darcy; Eclipse-manual base units of METRIC/FIELD/LAB/PVT-M')
    for sysn in SYS:
        for t in ('to_%s', 'from_%s', 'from_%s_offset'):
            w('@global %s' % (t % sysn))
    for k in DEFS:
        w('@global Opm::' + k)
    w('@prelude')
    w('/* ghost log of the string dimension table: addDimension(name, factor, offset) */')
    w('static unsigned long ghost_e, ghost_n0; static real_t ghost_v0;\nstatic struct { real_t factor[256]; real_t offset[256]; _Bool set[256]; } ghost_dims;')
    w('#define GHOST_ADD_DIM(self, name, ...) GHOST_ADD_DIM_(name, __VA_ARGS__, 0, 0)   /* the offset parameter defaults to 0.0 (UnitSystem.hpp) */')
    w('#define GHOST_ADD_DIM_(nm, f_, o_, ...) do { ghost_dims.factor[nm] = (f_); ghost_dims.offset[nm] = (o_); ghost_dims.set[nm] = 1; } while (0)')
    w('/* the table triples that initMETRIC / initFIELD / initLAB / initPVT_M install (their contracts) */')
    w('#define SYSTEM_TABLES(u) (' + ' || '.join('((u)->measure_table_from_si == TAB_G_to_%s && (u)->measure_table_to_si == TAB_G_from_%s && (u)->measure_table_to_si_offset == TAB_G_from_%s_offset)' % (x, x, x) for x in SYS) + ')')
    w('')
    w('@function unit_square')
    w('qual: Opm::unit::square')
    w('@function unit_cubic')
    w('qual: Opm::unit::cubic')
    # --- member functions
    w('@function us_to_si uf_tables')
    w('qual: Opm::UnitSystem::to_si')
    w('sig: (Opm::UnitSystem::measure, double) const')
    w('requires: m >= 0 && m < %d && TAB_VALID(self->measure_table_to_si) && TAB_VALID(self->measure_table_to_si_offset)' % len(MEASURES))
    w('ensures affine: \\result == verif_tab_at(self->measure_table_to_si, m) * val + verif_tab_at(self->measure_table_to_si_offset, m)')
    w('@function us_from_si uf_tables')
    w('qual: Opm::UnitSystem::from_si')
    w('sig: (Opm::UnitSystem::measure, double) const')
    w('requires: m >= 0 && m < %d && TAB_VALID(self->measure_table_from_si) && TAB_VALID(self->measure_table_to_si_offset)' % len(MEASURES))
    w('ensures affine: \\result == verif_tab_at(self->measure_table_from_si, m) * (val - verif_tab_at(self->measure_table_to_si_offset, m))')
    # bulk (vector) overloads: element-wise the same affine maps, for vectors of any length (ghost element)
    w('@function us_to_si_vec')
    w('qual: Opm::UnitSystem::to_si')
    w('sig: (Opm::UnitSystem::measure, std::vector<double')
    w('requires: m >= 0 && m < %d && SYSTEM_TABLES(self) && data->size <= 1099511627776ul' % len(MEASURES))
    w('ensures size: data->size == \\old(data->size)')
    w('ensures element: IMPLIES(ghost_e < data->size, data->data[ghost_e] == verif_tab_at(self->measure_table_to_si, m) * \\old(data->data[ghost_e]) + verif_tab_at(self->measure_table_to_si_offset, m))')
    w('assigns: *data')
    w('@function us_from_si_vec')
    w('qual: Opm::UnitSystem::from_si')
    w('sig: (Opm::UnitSystem::measure, std::vector<double')
    w('requires: m >= 0 && m < %d && SYSTEM_TABLES(self) && data->size <= 1099511627776ul' % len(MEASURES))
    w('ensures size: data->size == \\old(data->size)')
    w('ensures element: IMPLIES(ghost_e < data->size, data->data[ghost_e] == verif_tab_at(self->measure_table_from_si, m) * (\\old(data->data[ghost_e]) - verif_tab_at(self->measure_table_to_si_offset, m)))')
    w('assigns: *data')
    for sysn, cname in (('metric', 'initMETRIC'), ('field', 'initFIELD'), ('lab', 'initLAB'), ('pvt_m', 'initPVT_M')):
        w('@function us_%s' % cname)
        w('qual: Opm::UnitSystem::%s' % cname)
        w('ensures from_si: self->measure_table_from_si == TAB_G_to_%s' % sysn)
        w('ensures to_si: self->measure_table_to_si == TAB_G_from_%s' % sysn)
        w('ensures offset: self->measure_table_to_si_offset == TAB_G_from_%s_offset' % sysn)
        # (e) the string-keyed dimension table agrees with the measure table and with the physical definitions
        for dim, meas in DIMS.items():
            w('ensures dim_%s: ghost_dims.set[STR_%s] && ghost_dims.factor[STR_%s] == G_from_%s(%d)' % (dim, dim, dim, sysn, IDX[meas]))
            off = SYS[sysn]['_toff'] if dim == 'Temperature' else F(0)
            w('ensures dimoff_%s: ghost_dims.offset[STR_%s] == %s' % (dim, dim, q(off)))
        w('ensures dim_SurfaceTension: ghost_dims.set[STR_SurfaceTension] && ghost_dims.factor[STR_SurfaceTension] == %s' % q(F(1, 1000)))
        w('ensures dim_Timestep: ghost_dims.factor[STR_Timestep] == G_from_%s(%d)' % (sysn, IDX['time']))
        w('ensures dim_identity: ghost_dims.factor[STR_1] == 1 && ghost_dims.offset[STR_1] == 0')
        w('assigns: *self, ghost_dims')
    # --- lemmas
    w('@lemma unit_definitions replace=NONE')
    w('    /* every constant of Opm::unit / Opm::prefix equals its physical definition (spec data, exact rationals) */')
    for k, v in DEFS.items():
        g = 'G_' + k.replace('::', '_')
        w('    LEMMA_OBL(%s == %s, "definition %s");' % (g, q(v), k))
    for sysn, base in SYS.items():
        w('@lemma table_%s replace=NONE' % sysn)
        w('#define R(x) G_from_%s(M_##x)' % sysn)
        for m, i in IDX.items():
            w('#define M_%s %d' % (m, i))
        w('    /* (a) to/from rows are mutually inverse, the same offset is used both ways */')
        for m, i in IDX.items():
            w('    LEMMA_OBL(G_to_%s(%d) * G_from_%s(%d) == 1, "%s inverse %s");' % (sysn, i, sysn, i, sysn, m))
        for m, i in IDX.items():
            off = base['_toff'] if m == 'temperature' else F(0)
            w('    LEMMA_OBL(G_from_%s_offset(%d) == %s, "%s offset %s");' % (sysn, i, q(off), sysn, m))
        w('    /* (b) base rows equal the physical size of the system\'s base units */')
        for m, v in base.items():
            if m.startswith('_'):
                continue
            w('    LEMMA_OBL(R(%s) == %s, "%s base %s");' % (m, q(v), sysn, m))
        w('    /* (c) composite rows obey the dimensional law over the base rows */')
        for m, law in LAWS.items():
            w('    LEMMA_OBL(R(%s) == %s, "%s law %s");' % (m, law, sysn, m))
        w('#undef R')
        for m in IDX:
            w('#undef M_%s' % m)
    for sysn, cname in (('metric', 'initMETRIC'), ('field', 'initFIELD'), ('lab', 'initLAB'), ('pvt_m', 'initPVT_M')):
        w('@lemma roundtrip_%s' % sysn)
        w('    /* (d) for every measure and every real v: from_si(m, to_si(m, v)) == v and to_si(from_si) == v,')
        w('       using only the CONTRACTS of init*, to_si, from_si and the table lemma rows */')
        w('    struct UnitSystem us; c_enum m; real_t v;')
        w('    __CPROVER_assume(m >= 0 && m < %d);' % len(MEASURES))
        w('    us_%s(&us);' % cname)
        w('    real_t si = us_to_si(&us, m, v);')
        w('    LEMMA_OBL(!verif_thrown && us_from_si(&us, m, si) == v, "roundtrip %s from_si(to_si(v)) == v");' % sysn)
        w('    real_t raw = us_from_si(&us, m, v);')
        w('    LEMMA_OBL(!verif_thrown && us_to_si(&us, m, raw) == v, "roundtrip %s to_si(from_si(v)) == v");' % sysn)
    return '\n'.join(out) + '\n'


sys.stdout.write(emit())
