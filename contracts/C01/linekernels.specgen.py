# C01 (2): what one input line contributes is independent of comments and of separators around it: strip_comments cuts
# exactly at the first "--" (outside quotes; fully characterised for quote-free text), trim removes separators only and
# only at the two ends, getline splits at the first newline.  Same contracts as contracts/C20/text.spec (derived
# mechanically so the two cannot drift apart); here they are read as the functional half of the layout invariance.
import os, sys
src = open(os.path.join(os.path.dirname(os.path.abspath(__file__)), '..', 'C20', 'text.spec')).read()
sys.stdout.write('@@@ linekernels\n' + src.replace('@unit text', '@unit linekernels') + '\n')
