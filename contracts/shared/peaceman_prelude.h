/* 2 pi to 50 digits (mathematical tables), as an exact rational; pi is irrational, so "= 2 pi Kh" is stated
   as agreement to a relative 1e-12 -- three orders of magnitude tighter than any 8-digit value of pi. */
#define PI2 ((((real_t)628318530717958647L) * 100000000000000000L + 69252867665590057L) / (((real_t)100000000000000000L) * 100000000000000000L))
#define R_ABS(x) ((x) < 0 ? -(x) : (x))
#define REL_EQ(x, y) (R_ABS((x) - (y)) * 1000000000000L <= R_ABS(y))
#define UF(f, x) __CPROVER_uninterpreted_##f(x)
#define UF2(f, x, y) __CPROVER_uninterpreted_##f(x, y)
