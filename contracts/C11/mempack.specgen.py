# C11 (2): the byte-level packers of MemPacker.cpp for the non-POD types: pack followed by unpack is the identity,
# and both move the position by exactly packSize -- for every value, at byte level (the buffer is an unbounded array
# of bytes; the POD packers of MemPacker.hpp are modelled as what they are: memcpy of sizeof(T) bytes).
import sys
w = sys.stdout.write
PODS = [('unsigned_long_long', 'unsigned long long', 8), ('unsigned_long', 'unsigned long', 8), ('long', 'long', 8),
        ('unsigned_int', 'unsigned int', 4), ('int', 'int', 4), ('unsigned_short', 'unsigned short', 2), ('short', 'short', 2),
        ('unsigned_char', 'unsigned char', 1), ('char', 'char', 1)]
SIZES = [3, 4, 10, 17]
w('@@@ mempack\n')
w('''@unit mempack
@tu opm/common/utility/MemPacker.cpp
@filter ::
@mode SA
@timeout 120
@typemap std::chrono::time_point<.*> = c_long
@typemap Opm::time_point = c_long
''')
for n in SIZES:
    w('@typemap std::bitset<%d([uU][lL])?> = struct ghost_bits%d\n' % (n, n))
    w('@struct ghost_bits%d c_ulong bits;\n' % n)
    w('@lib ctor:struct ghost_bits%d:1 = BITS%d_MAKE\n' % (n, n))
w('''@lib ~to_ullong$ = BITS_VALUE
@lib ~to_ulong$ = BITS_VALUE
@lib ~Packing<true, ([\\w ]+)>::packSize = PACKSIZE_POD_\\1
@lib ~Packing<true, ([\\w ]+)>::pack = PACK_POD_\\1
@lib ~Packing<true, ([\\w ]+)>::unpack = UNPACK_POD_\\1
@trusted Packing<true,T> (MemPacker.hpp) is memcpy of sizeof(T) bytes at buffer.data()+position on a little-endian machine, position += sizeof(T); std::bitset<N>(v) keeps the low N bits; to_ullong()/to_ulong() return them (N <= 64)
@notcovered Packing<false,std::string> (char-array memcpy), Packing<false,time_point> (TimeService conversion), the Serializer class templates (vectors, maps, optionals, variants, pointers)
@prelude
#define BITS_VALUE(b) ((b).bits)
''')
for n in SIZES:
    w('#define BITS%d_MAKE(v) ({ struct ghost_bits%d verif_b; verif_b.bits = ((unsigned long long)(v)) & ((1ull << %d) - 1ull); verif_b; })\n' % (n, n, n))
for name, t, nb in PODS:
    w('#define PACKSIZE_POD_%s(x) ((void)(x), (c_ulong)%d)\n' % (name, nb))
    w('#define PACK_POD_%s(x, buf, pos) do { unsigned long long verif_x = (unsigned long long)(%s)(x); '
      '__CPROVER_assert(verif_thrown || ((pos) <= (buf).size && (buf).size - (pos) >= %d), "memcpy of a POD stays inside the buffer"); '
      % (name, t, nb) + ' '.join('(buf).data[(pos) + %d] = (char)((verif_x >> %d) & 0xff);' % (k, 8 * k) for k in range(nb)) +
      ' (pos) += %d; } while (0)\n' % nb)
    w('#define UNPACK_POD_%s(x, buf, pos) do { unsigned long long verif_x = 0; '
      '__CPROVER_assert(verif_thrown || ((pos) <= (buf).size && (buf).size - (pos) >= %d), "memcpy of a POD stays inside the buffer"); '
      % (name, nb) + ' '.join('verif_x |= ((unsigned long long)(unsigned char)(buf).data[(pos) + %d]) << %d;' % (k, 8 * k) for k in range(nb)) +
      ' (x) = (%s)verif_x; (pos) += %d; } while (0)\n' % (t, nb))
w('\n')
for n in SIZES:
    q = 'Packing<false, std::bitset<%dul> >' % n
    w('''@function packSize%(n)d
qual: ~Packing<false, std::bitset<%(n)dul> >::packSize$
ensures positive: \\result >= 1 && \\result <= 8

@function pack%(n)d
qual: ~Packing<false, std::bitset<%(n)dul> >::pack$
inline: packSize%(n)d
requires: data->bits < (1ull << %(n)d)
requires: *position <= buffer->size && buffer->size - *position >= packSize%(n)d(data)
ensures advances_by_packSize: *position == \\old(*position) + packSize%(n)d(data)
assigns: *buffer, *position

@function unpack%(n)d
qual: ~Packing<false, std::bitset<%(n)dul> >::unpack$
inline: packSize%(n)d
requires: *position <= buffer->size && buffer->size - *position >= packSize%(n)d(data)
ensures advances_by_packSize: *position == \\old(*position) + packSize%(n)d(data)
ensures is_a_bitset: data->bits < (1ull << %(n)d)
assigns: *data, *position

@harness roundtrip%(n)d
    /* real pack followed by real unpack: the same value comes back and exactly the packed bytes are consumed */
    struct ghost_bits%(n)d a, b; struct vec_char buf; c_ulong p0, p, q;
    __CPROVER_assume(a.bits < (1ull << %(n)d) && p0 <= buf.size && buf.size - p0 >= 64);
    p = p0;
    pack%(n)d(&a, &buf, &p);
    __CPROVER_assert(!verif_thrown && p == p0 + packSize%(n)d(&a), "roundtrip%(n)d/pack writes packSize bytes");
    q = p0;
    unpack%(n)d(&b, &buf, &q);
    __CPROVER_assert(!verif_thrown && q == p, "roundtrip%(n)d/unpack consumes exactly the bytes that were packed");
    __CPROVER_assert(b.bits == a.bits, "roundtrip%(n)d/unpack(pack(x)) == x");

''' % {'n': n})
