# C11 (2): the byte-level packers of MemPacker.cpp for the non-POD types: pack followed by unpack is the identity,
# and both move the position by exactly packSize -- for every value, at byte level (the buffer is an unbounded array
# of bytes; the POD packers of MemPacker.hpp are modelled as what they are: memcpy of sizeof(T) bytes).
import sys
w = sys.stdout.write
PODS = [('unsigned_long_long', 'unsigned long long', 8), ('unsigned_long', 'unsigned long', 8), ('long', 'long', 8),
        ('unsigned_int', 'unsigned int', 4), ('int', 'int', 4), ('unsigned_short', 'unsigned short', 2), ('short', 'short', 2),
        ('unsigned_char', 'unsigned char', 1), ('char', 'char', 1)]
SIZES = [3, 4, 10, 17]
w('@@@ mempack\n')
w('''@unit mempack
@tu opm/common/utility/MemPacker.cpp
@filter ::
@mode SA
@timeout 120
@typemap std::chrono::time_point<.*> = c_long
@typemap Opm::time_point = c_long
''')
for n in SIZES:
    w('@typemap std::bitset<%d([uU][lL])?> = struct ghost_bits%d\n' % (n, n))
    w('@struct ghost_bits%d c_ulong bits;\n' % n)
    w('@lib ctor:struct ghost_bits%d:1 = BITS%d_MAKE\n' % (n, n))
w('''@lib ~to_ullong$ = BITS_VALUE
@lib ~to_ulong$ = BITS_VALUE
@lib ~Packing<true, ([\\w ]+)>::packSize = PACKSIZE_POD_\\1
@lib ~^append$ = STR_APPEND_N
@instantiate ghost_c
@lib ~Packing<true, ([\\w ]+)>::pack = PACK\\N_POD_\\1
@lib ~Packing<true, ([\\w ]+)>::unpack = UNPACK\\N_POD_\\1
@trusted Packing<true,T> (MemPacker.hpp) is memcpy of sizeof(T) bytes at buffer.data()+position on a little-endian machine, position += sizeof(T); std::bitset<N>(v) keeps the low N bits; to_ullong()/to_ulong() return them (N <= 64)
@notcovered Packing<false,time_point> (TimeService conversion), the Serializer class templates (vectors, maps, optionals, variants, pointers)
@prelude
#define BITS_VALUE(b) ((b).bits)
''')
for n in SIZES:
    w('#define BITS%d_MAKE(v) ({ struct ghost_bits%d verif_b; verif_b.bits = ((unsigned long long)(v)) & ((1ull << %d) - 1ull); verif_b; })\n' % (n, n, n))
for name, t, nb in PODS:
    w('#define PACKSIZE_POD_%s(x) ((void)(x), (c_ulong)%d)\n' % (name, nb))
    w('#define PACK3_POD_%s(x, buf, pos) do { unsigned long long verif_x = (unsigned long long)(%s)(x); '
      '__CPROVER_assert(verif_thrown || ((pos) <= (buf).size && (buf).size - (pos) >= %d), "memcpy of a POD stays inside the buffer"); '
      % (name, t, nb) + ' '.join('(buf).data[(pos) + %d] = (char)((verif_x >> %d) & 0xff);' % (k, 8 * k) for k in range(nb)) +
      ' (pos) += %d; } while (0)\n' % nb)
    w('#define UNPACK3_POD_%s(x, buf, pos) do { unsigned long long verif_x = 0; '
      '__CPROVER_assert(verif_thrown || ((pos) <= (buf).size && (buf).size - (pos) >= %d), "memcpy of a POD stays inside the buffer"); '
      % (name, nb) + ' '.join('verif_x |= ((unsigned long long)(unsigned char)(buf).data[(pos) + %d]) << %d;' % (k, 8 * k) for k in range(nb)) +
      ' (x) = (%s)verif_x; (pos) += %d; } while (0)\n' % (t, nb))
w('''static unsigned long ghost_c;    /* an arbitrary character position */
/* Packing<true,char>::pack(p, n, buffer, position): memcpy of n chars; stated at the ghost position */
#define PACK4_POD_char(v, n, buf, pos) do { unsigned long verif_n = (n); __typeof__(buf) verif_nb; \\
    __CPROVER_assert(verif_thrown || ((pos) <= (buf).size && (buf).size - (pos) >= verif_n), "memcpy of the characters stays inside the buffer"); \\
    __CPROVER_assert(verif_thrown || verif_n <= (v).size, "memcpy reads inside the source string"); \\
    __CPROVER_assume(verif_nb.size == (buf).size); \\
    __CPROVER_assume(verif_nb.data[(pos) + ghost_c] == ((ghost_c < verif_n) ? (v).data[ghost_c] : (buf).data[(pos) + ghost_c])); \\
    __CPROVER_assume(__CPROVER_forall { unsigned long verif_q; (verif_q < (pos)) ==> verif_nb.data[verif_q] == (buf).data[verif_q] }); \\
    (buf) = verif_nb; (pos) += verif_n; } while (0)
#define UNPACK4_POD_char(v, n, buf, pos) do { unsigned long verif_n = (n); __typeof__(v) verif_nv; \\
    __CPROVER_assert(verif_thrown || ((pos) <= (buf).size && (buf).size - (pos) >= verif_n), "memcpy of the characters stays inside the buffer"); \\
    __CPROVER_assert(verif_thrown || verif_n <= (v).size, "memcpy writes inside the destination array"); \\
    __CPROVER_assume(verif_nv.size == (v).size); \\
    __CPROVER_assume(verif_nv.data[ghost_c] == ((ghost_c < verif_n) ? (buf).data[(pos) + ghost_c] : (v).data[ghost_c])); \\
    (v) = verif_nv; (pos) += verif_n; } while (0)
/* the std::size_t stored little-endian at position p of the buffer */
#define BYTE(buf, i) ((unsigned long)(unsigned char)(buf)->data[i])
#define LENWORD(buf, p) (BYTE(buf, p) | (BYTE(buf, (p) + 1) << 8) | (BYTE(buf, (p) + 2) << 16) | (BYTE(buf, (p) + 3) << 24) | (BYTE(buf, (p) + 4) << 32) | (BYTE(buf, (p) + 5) << 40) | (BYTE(buf, (p) + 6) << 48) | (BYTE(buf, (p) + 7) << 56))
/* std::string::append(p, n) */
#define STR_APPEND_N(s, v, n) do { unsigned long verif_n = (n), verif_s0 = (s).size; __typeof__(s) verif_ns; \\
    __CPROVER_assert(verif_thrown || verif_n <= (v).size, "append reads inside the source array"); \\
    __CPROVER_assume(verif_ns.size == verif_s0 + verif_n); \\
    __CPROVER_assume(verif_ns.data[verif_s0 + ghost_c] == ((ghost_c < verif_n) ? (v).data[ghost_c] : verif_ns.data[verif_s0 + ghost_c])); \\
    (s) = verif_ns; } while (0)
''')
w('''@function str_packSize
qual: ~Packing<false, std::__cxx11::basic_string<char.*> >::packSize$
ensures header_plus_characters: \\result == 8 + data->size

@function str_pack
qual: ~Packing<false, std::__cxx11::basic_string<char.*> >::pack$
inline: str_packSize
requires: data->size <= 1000000000 && *position <= buffer->size && buffer->size - *position >= str_packSize(data)
ensures advances_by_packSize: *position == \\old(*position) + str_packSize(data)
assigns: *buffer, *position

@function str_unpack
qual: ~Packing<false, std::__cxx11::basic_string<char.*> >::unpack$
requires: *position <= buffer->size && buffer->size - *position >= 8
requires: LENWORD(buffer, *position) <= 1000000000 && buffer->size - *position - 8 >= LENWORD(buffer, *position)
ensures consumes_header_and_characters: *position == \\old(*position) + 8 + \\old(LENWORD(buffer, *position))
ensures length_from_header: data->size == \\old(LENWORD(buffer, *position))
assigns: *data, *position

@harness str_roundtrip
    /* real pack followed by real unpack of a string of ANY length: same length, same character at the ghost position,
       exactly the packed bytes consumed */
    struct vec_char a, b, buf; c_ulong p0, p, q;
    __CPROVER_assume(a.size <= 1000000000 && p0 <= buf.size && buf.size - p0 >= a.size + 8);
    p = p0;
    str_pack(&a, &buf, &p);
    __CPROVER_assert(!verif_thrown && p == p0 + str_packSize(&a), "str_roundtrip/pack writes packSize bytes");
    q = p0;
    str_unpack(&b, &buf, &q);
    __CPROVER_assert(!verif_thrown && q == p, "str_roundtrip/unpack consumes exactly the bytes that were packed");
    __CPROVER_assert(b.size == a.size, "str_roundtrip/same length");
    __CPROVER_assert(!(ghost_c < a.size) || b.data[ghost_c] == a.data[ghost_c], "str_roundtrip/same characters");

''')
w('\n')
for n in SIZES:
    q = 'Packing<false, std::bitset<%dul> >' % n
    w('''@function packSize%(n)d
qual: ~Packing<false, std::bitset<%(n)dul> >::packSize$
ensures positive: \\result >= 1 && \\result <= 8

@function pack%(n)d
qual: ~Packing<false, std::bitset<%(n)dul> >::pack$
inline: packSize%(n)d
requires: data->bits < (1ull << %(n)d)
requires: *position <= buffer->size && buffer->size - *position >= packSize%(n)d(data)
ensures advances_by_packSize: *position == \\old(*position) + packSize%(n)d(data)
assigns: *buffer, *position

@function unpack%(n)d
qual: ~Packing<false, std::bitset<%(n)dul> >::unpack$
inline: packSize%(n)d
requires: *position <= buffer->size && buffer->size - *position >= packSize%(n)d(data)
ensures advances_by_packSize: *position == \\old(*position) + packSize%(n)d(data)
ensures is_a_bitset: data->bits < (1ull << %(n)d)
assigns: *data, *position

@harness roundtrip%(n)d
    /* real pack followed by real unpack: the same value comes back and exactly the packed bytes are consumed */
    struct ghost_bits%(n)d a, b; struct vec_char buf; c_ulong p0, p, q;
    __CPROVER_assume(a.bits < (1ull << %(n)d) && p0 <= buf.size && buf.size - p0 >= 64);
    p = p0;
    pack%(n)d(&a, &buf, &p);
    __CPROVER_assert(!verif_thrown && p == p0 + packSize%(n)d(&a), "roundtrip%(n)d/pack writes packSize bytes");
    q = p0;
    unpack%(n)d(&b, &buf, &q);
    __CPROVER_assert(!verif_thrown && q == p, "roundtrip%(n)d/unpack consumes exactly the bytes that were packed");
    __CPROVER_assert(b.bits == a.bits, "roundtrip%(n)d/unpack(pack(x)) == x");

''' % {'n': n})
