# GENERATED from the table RULES below: one contract and one loop invariant per elemental function
import sys
HEAD = r"""# C17 (2): the elemental UDQ functions act element-wise with undefined elements staying undefined:
# ABS, DEF, UNDEF, IDV, EXP, LN, LOG over sets of ANY size (loop invariants at an arbitrary ghost element).
# The UDQSet / UDQScalar members used here live in UDQSet.cpp; their contracts are the ones proved in unit udqscalar
# (operator[] range check, assign(index, optional), get / operator bool / defined).
@unit udqfunc
@tu opm/input/eclipse/Schedule/UDQ/UDQFunction.cpp
@filter ::
@mode SA
@include vmath.h
@timeout 150
@typemap std::(__cxx11::)?basic_string<char.*> = c_opaque
@typemap std::string = c_opaque
@trusted UDQSet::size / operator[](index) / assign(index, optional<double>) and UDQScalar::get / defined / operator bool behave as their contracts (units udqscalar: element access by position, definedness flag and value)
@notcovered reductions (SUM, AVEA, AVEG, AVEH, MAX, MIN, NORM*, PROD: std::accumulate / min_element / inner_product folds), SORTA / SORTD (std::sort), RANDN / RANDU, the binary set functions (UADD ... union operators), scalar broadcasting
@prelude
static unsigned long ghost_e;    /* an arbitrary element position */
#define NEL(s) ((s)->values.size)
#define ADEF(i) (arg->values.data[i].m_value.has)
#define AVAL(i) (arg->values.data[i].m_value.val)
#define RNEL(r) ((r).values.size)
#define RDEF(r, i) ((r).values.data[i].m_value.has)
#define RVAL(r, i) ((r).values.data[i].m_value.val)
#define UF(f, x) __CPROVER_uninterpreted_##f(x)
/* element i of r is element i of the argument with f applied to its value when defined */
#define SAME_AS_ARG(r, i) (RDEF(r, i) == ADEF(i) && IMPLIES(ADEF(i), RVAL(r, i) == AVAL(i)))

@function set_size extern
qual: Opm::UDQSet::size
ensures n: \result == NEL(self)

@function set_at extern
qual: Opm::UDQSet::operator[]
sig: (unsigned long) const
ensures range_checked: \thrown == (index >= NEL(self))
ensures element: IMPLIES(!\thrown, \result.m_value.has == self->values.data[index].m_value.has && IMPLIES(\result.m_value.has, \result.m_value.val == self->values.data[index].m_value.val))

@function set_assign extern
qual: Opm::UDQSet::assign
sig: (unsigned long, double)
requires: index < NEL(self)
assigns: self->values
ensures size_kept: NEL(self) == \old(NEL(self))
ensures element_assigned: self->values.data[index].m_value.has && self->values.data[index].m_value.val == value
ensures others_kept: IMPLIES(ghost_e != index, self->values.data[ghost_e].m_value.has == \old(self->values.data[ghost_e].m_value.has) && self->values.data[ghost_e].m_value.val == \old(self->values.data[ghost_e].m_value.val))

@function sc_get extern
qual: Opm::UDQScalar::get
ensures throws_iff_undefined: \thrown == !self->m_value.has
ensures value: IMPLIES(self->m_value.has, \result == self->m_value.val)

@function sc_bool extern
qual: Opm::UDQScalar::operator bool
ensures def: \result == self->m_value.has

@function sc_defined extern
qual: Opm::UDQScalar::defined
ensures def: \result == self->m_value.has

"""
# name: (value of a defined element, is a defined element defined in the result, value / definedness of an UNDEFINED element, throws-when)
RULES = {
 'ABS':   ('(AVAL(@E) < 0 ? -AVAL(@E) : AVAL(@E))', None),
 'DEF':   ('1', None),
 'EXP':   ('UF(exp, AVAL(@E))', None),
 'LN':    ('UF(log, AVAL(@E))', 'AVAL(@E) <= 0'),
 'LOG':   ('UF(log10, AVAL(@E))', 'AVAL(@E) <= 0'),
}
out = [HEAD]
for nm, (val, bad) in RULES.items():
    ok = 'IMPLIES(ADEF(@E), RVAL(@R, @E) == %s)' % val
    elem = 'RDEF(@R, @E) == ADEF(@E) && ' + ok
    req = 'NEL(arg) <= 1000000000'
    out.append('@function f_%s' % nm)
    out.append('qual: Opm::UDQUnaryElementalFunction::%s' % nm)
    out.append('requires: ' + req)
    if bad:
        out.append('ensures throws_iff_a_defined_element_is_not_positive_witness: IMPLIES(ghost_e < NEL(arg) && ADEF(ghost_e) && %s, \\thrown)' % bad.replace('@E', 'ghost_e'))
        out.append('ensures same_size: \\thrown || RNEL(\\result) == NEL(arg)')
        out.append('ensures elementwise: \\thrown || IMPLIES(ghost_e < NEL(arg), %s)' % elem.replace('@R', '\\result').replace('@E', 'ghost_e'))
    else:
        out.append('ensures same_size: RNEL(\\result) == NEL(arg)')
        out.append('ensures elementwise: IMPLIES(ghost_e < NEL(arg), %s)' % elem.replace('@R', '\\result').replace('@E', 'ghost_e'))
    inv = 'index <= NEL(arg) && RNEL(result) == NEL(arg) && IMPLIES(ghost_e < index, %s) && IMPLIES(ghost_e >= index && ghost_e < NEL(arg), SAME_AS_ARG(result, ghost_e))' % elem.replace('@R', 'result').replace('@E', 'ghost_e')
    if bad:
        inv += ' && IMPLIES(ghost_e < index && ADEF(ghost_e), !(%s))' % bad.replace('@E', 'ghost_e')
    out.append('loop 0 invariant elementwise: ' + inv)
    out.append('loop 0 assigns: index, result')
    out.append('loop 0 decreases: NEL(arg) - index')
    out.append('')
# IDV: every element becomes defined, 1 where the argument is defined and 0 where it is not
out.append("""@function f_IDV
qual: Opm::UDQUnaryElementalFunction::IDV
requires: NEL(arg) <= 1000000000
ensures same_size: RNEL(\\result) == NEL(arg)
ensures indicator: IMPLIES(ghost_e < NEL(arg), RDEF(\\result, ghost_e) && RVAL(\\result, ghost_e) == (ADEF(ghost_e) ? 1 : 0))
loop 0 invariant indicator: index <= NEL(arg) && RNEL(result) == NEL(arg) && IMPLIES(ghost_e < index, RDEF(result, ghost_e) && RVAL(result, ghost_e) == (ADEF(ghost_e) ? 1 : 0))
loop 0 assigns: index, result
loop 0 decreases: NEL(arg) - index
""")
# UNDEF: a fresh set of the same size, 1 where the argument is UNDEFINED, undefined where it is defined
out.append("""@function set_ctor_size extern
qual: Opm::UDQSet::UDQSet
sig: const&, unsigned long)
assigns: *self
ensures all_undefined: self->values.size == size && IMPLIES(ghost_e < size, !self->values.data[ghost_e].m_value.has)

@function set_name extern
qual: ~Opm::UDQSet::name(\\[abi:cxx11\\])?$
sig: () const
ensures pure: !\\thrown

@function f_UNDEF
qual: Opm::UDQUnaryElementalFunction::UNDEF
requires: NEL(arg) <= 1000000000
ensures same_size: RNEL(\\result) == NEL(arg)
ensures complement_of_definedness: IMPLIES(ghost_e < NEL(arg), RDEF(\\result, ghost_e) == !ADEF(ghost_e) && IMPLIES(!ADEF(ghost_e), RVAL(\\result, ghost_e) == 1))
loop 0 invariant complement: index <= NEL(arg) && RNEL(result) == NEL(arg) && IMPLIES(ghost_e < index, RDEF(result, ghost_e) == !ADEF(ghost_e) && IMPLIES(!ADEF(ghost_e), RVAL(result, ghost_e) == 1)) && IMPLIES(ghost_e >= index && ghost_e < NEL(arg), !RDEF(result, ghost_e))
loop 0 assigns: index, result
loop 0 decreases: NEL(arg) - index
""")
sys.stdout.write('@@@ udqfunc\n' + '\n'.join(out) + '\n')
