#!/usr/bin/env python3
"""C16, the dynamically sized variant Evaluation<double, DynamicSize, 8>: the number of derivatives n is SYMBOLIC (the
length of the data vector minus one); every obligation is stated at the value slot and at one arbitrary derivative slot
ghost_d in 1..n, so it holds for every slot of every size.  The loops over the slots are summarised element-wise by the
extractor (side-effect-free index loops) or carry generated loop invariants."""
import sys
out = []
w = out.append
E = 'Opm::DenseAd::Evaluation<double, -1, 8u>'
M = E + '::'
cE = '(%s const&)' % E
w('@@@ addyn')
w('@unit addyn')
w('@tu DRIVER')
w('@filter ::')
w('@mode SA')
w('@include vmath.h')
w('@timeout 120')
w('@instantiate ghost_d')
w('@instantiate 0')
w('@typemap (Opm::)?FastSmallVector<double, 8[uUlL]*> = vec:real_t')
w('@lib CheckDefined = V_NOP')
w('@record Evaluation<double, (-1|DynamicSize), 8[uUlL]*> = E')
w('@trusted Opm::FastSmallVector<double,8> behaves as a vector of doubles (size(), operator[], fill constructor, copy); its small-buffer / heap switch is not verified')
w('@notcovered pow / atan2 / min / max of Math.hpp for the dynamic variant, mixed scalar-left operators, IEEE rounding, NaN/Inf propagation (doubles are treated as reals)')
w('@driver')
w('#include <opm/material/densead/Evaluation.hpp>')
w('#include <opm/material/densead/DynamicEvaluation.hpp>')
w('namespace Opm { namespace DenseAd {')
w('typedef Evaluation<double, DynamicSize, 8u> E;')
w('template class Evaluation<double, DynamicSize, 8u>;')
for op in '+-*/':
    w('template E& E::operator%s=<double>(const double&);' % op)
    w('template E E::operator%s<double>(const double&) const;' % op)
w('template E::Evaluation(int, const double&);')
w('template E::Evaluation(int, const double&, int);')
w('template void E::setValue<double>(const double&);')
w('template bool E::operator> <double>(double) const;')
w('}}')
w('#include <opm/material/densead/Math.hpp>')
w('namespace Opm { namespace DenseAd {')
for f in ('sqrt', 'exp', 'log', 'log10', 'sin', 'cos', 'tan', 'asin', 'acos', 'atan', 'sinh', 'cosh', 'asinh', 'acosh', 'abs'):
    w('template E %s(const E&);' % f)
w('}}')
w('@prelude')
w('static unsigned long ghost_d;   /* an arbitrary derivative slot */')
w('#define V_NOP(x) ((void)0)')
w('#define LEN(p) ((p)->data_.size)')
w('#define VAL(p) ((p)->data_.data[0])')
w('#define DER(p) ((p)->data_.data[ghost_d])')
w('#define SLOT(p) (ghost_d >= 1 && ghost_d < LEN(p))')
w('#define WF(p) (LEN(p) >= 1 && LEN(p) <= 1000000)')
w('#define RLEN(r) ((r).data_.size)')
w('#define RV(r) ((r).data_.data[0])')
w('#define RD(r) ((r).data_.data[ghost_d])')
w('#define UF(f, x) __CPROVER_uninterpreted_##f(x)')
w("static real_t ghost_u0, ghost_d0;   /* value and ghost-slot derivative at entry */")
w("#define ENTRY_U ghost_u0")
w("#define ENTRY_D ghost_d0")


def fn(cname, qual, sig=None, opts=''):
    w('')
    w('@function %s %s' % (cname, opts))
    w('qual: %s' % qual)
    if sig:
        w('sig: %s' % sig)


for h in ('size', 'length_', 'valuepos_', 'dstart_', 'dend_', 'checkDefined_', 'value'):
    fn('E_' + h.rstrip('_'), M + h, '() const')
    if h == 'checkDefined_':
        # debug-only loop over the slots whose body is a no-op here (Valgrind::CheckDefined)
        w('loop 0 invariant range: i >= 1')
        w('loop 0 assigns: i')
        w('loop 0 decreases: (c_long)LEN(self) - i')
fn('E_setValue', M + 'setValue<double>')
fn('E_clearDerivatives', M + 'clearDerivatives', '()')
w('requires: WF(self)')
w('ensures val: VAL(self) == \\old(VAL(self)) && LEN(self) == \\old(LEN(self))')
w('ensures d: IMPLIES(SLOT(self), DER(self) == 0)')
w('assigns: *self')
fn('E_copyDerivatives', M + 'copyDerivatives')
w('requires: WF(self) && LEN(other) == LEN(self)')
w('ensures val: VAL(self) == \\old(VAL(self)) && LEN(self) == \\old(LEN(self))')
w('ensures d: IMPLIES(SLOT(self), DER(self) == DER(other))')
w('assigns: *self')
fn('E_ctor_nc', M + 'Evaluation<double>', '(int, double const&)')
w('requires: numDerivatives >= 0 && numDerivatives <= 100000')
w('ensures len: LEN(self) == (unsigned long)numDerivatives + 1')
w('ensures val: VAL(self) == c')
w('ensures d: IMPLIES(SLOT(self), DER(self) == 0)')
w('assigns: *self')
fn('E_ctor_ncv', M + 'Evaluation<double>', '(int, double const&, int)')
w('requires: nVars >= 1 && nVars <= 100000 && 0 <= varPos && varPos < nVars')
w('ensures len: LEN(self) == (unsigned long)nVars + 1')
w('ensures val: VAL(self) == c')
w('ensures d: IMPLIES(SLOT(self), DER(self) == ((unsigned long)varPos + 1 == ghost_d ? 1 : 0))')
w('assigns: *self')

u, v = '\\old(VAL(self))', '\\old(VAL(other))'
du, dv = '\\old(DER(self))', '\\old(DER(other))'
names = {'+': 'add', '-': 'sub', '*': 'mul', '/': 'div'}
rules = {
    '+': (u + ' + ' + v, '%s + %s' % (du, dv), None),
    '-': (u + ' - ' + v, '%s - %s' % (du, dv), None),
    '*': (u + ' * ' + v, '%s * %s + %s * %s' % (du, v, u, dv), None),
    '/': (u + ' / ' + v, '(%s * %s - %s * %s) / (%s * %s)' % (du, v, u, dv, v, v), 'VAL(other) != 0'),
}
for op, (val, d, req) in rules.items():
    fn('E_%s_assign_E' % names[op], M + 'operator%s=' % op, cE)
    w('requires: WF(self) && LEN(other) == LEN(self)' + (' && ' + req if req else ''))
    w('ensures len: LEN(self) == \\old(LEN(self))')
    w('ensures val: VAL(self) == ' + val)
    w('ensures d: IMPLIES(SLOT(self), DER(self) == %s)' % d)
    w('assigns: *self')
    if op == '/':
        # the quotient loop reads the value slot through references while it rewrites the derivative slots: generated invariant
        w('loop 0 invariant slots: idx >= 1 && (unsigned long)idx <= LEN(self) && LEN(self) == LEN(other) && VAL(self) == ENTRY_U && '
          'IMPLIES(SLOT(self) && ghost_d < (unsigned long)idx, DER(self) == (ENTRY_D * VAL(other) - ENTRY_U * DER(other)) / (VAL(other) * VAL(other))) && '
          'IMPLIES(SLOT(self) && ghost_d >= (unsigned long)idx, DER(self) == ENTRY_D)')
        w('loop 0 assigns: idx, self->data_')
        w('loop 0 decreases: LEN(self) - idx')
        w('init: ghost_u0 = VAL(self)')
        w('init: ghost_d0 = DER(self)')
c = 'other'
srules = {
    '+': (u + ' + ' + c, du, None),
    '-': (u + ' - ' + c, du, None),
    '*': (u + ' * ' + c, '%s * %s' % (du, c), None),
    '/': (u + ' / ' + c, '%s * (1 / %s)' % (du, c), 'other != 0'),
}
for op, (val, d, req) in srules.items():
    fn('E_%s_assign_c' % names[op], E + '& ' + M + 'operator%s=<double>' % op, '(double const&)')
    w('requires: WF(self)' + (' && ' + req if req else ''))
    w('ensures len: LEN(self) == \\old(LEN(self))')
    w('ensures val: VAL(self) == ' + (val if op != '/' else u + ' * (1 / other)'))
    w('ensures d: IMPLIES(SLOT(self), DER(self) == %s)' % d)
    w('assigns: *self')
U, V = 'VAL(self)', 'VAL(other)'
dU, dV = 'DER(self)', 'DER(other)'
brules = {
    '+': (U + ' + ' + V, '%s + %s' % (dU, dV), None),
    '-': (U + ' - ' + V, '%s - %s' % (dU, dV), None),
    '*': (U + ' * ' + V, '%s * %s + %s * %s' % (dU, V, U, dV), None),
    '/': (U + ' / ' + V, '(%s * %s - %s * %s) / (%s * %s)' % (dU, V, U, dV, V, V), 'VAL(other) != 0'),
}
for op, (val, d, req) in brules.items():
    fn('E_%s_E' % names[op], M + 'operator%s' % op, cE + ' const')
    w('requires: WF(self) && LEN(other) == LEN(self)' + (' && ' + req if req else ''))
    w('ensures len: RLEN(\\result) == LEN(self)')
    w('ensures val: RV(\\result) == ' + val)
    w('ensures d: IMPLIES(SLOT(self), RD(\\result) == %s)' % d)
fn('E_neg', M + 'operator-', '() const')
w('requires: WF(self)')
w('ensures len: RLEN(\\result) == LEN(self)')
w('ensures val: RV(\\result) == -VAL(self)')
w('ensures d: IMPLIES(SLOT(self), RD(\\result) == -DER(self))')
fn('E_derivative', M + 'derivative', '(int) const')
fn('E_setDerivative', M + 'setDerivative')
X, dX = 'VAL(x)', 'DER(x)'
m1 = {
    'sqrt': ('UF(sqrt, %s)' % X, '(1 / (2 * UF(sqrt, %s)))' % X, X + ' > 0'),
    'exp': ('UF(exp, %s)' % X, 'UF(exp, %s)' % X, None),
    'log': ('UF(log, %s)' % X, '(1 / %s)' % X, X + ' > 0'),
    'log10': ('UF(log10, %s)' % X, '(UF(log10, UF(exp, 1)) / %s)' % X, X + ' > 0'),
    'sin': ('UF(sin, %s)' % X, 'UF(cos, %s)' % X, None),
    'cos': ('UF(cos, %s)' % X, '(-UF(sin, %s))' % X, None),
    'tan': ('UF(tan, %s)' % X, '(1 + UF(tan, %s) * UF(tan, %s))' % (X, X), None),
    'asin': ('UF(asin, %s)' % X, '(1 / UF(sqrt, 1 - %s * %s))' % (X, X), '-1 < %s && %s < 1' % (X, X)),
    'acos': ('UF(acos, %s)' % X, '(-1 / UF(sqrt, 1 - %s * %s))' % (X, X), '-1 < %s && %s < 1' % (X, X)),
    'atan': ('UF(atan, %s)' % X, '(1 / (1 + %s * %s))' % (X, X), None),
    'sinh': ('UF(sinh, %s)' % X, 'UF(cosh, %s)' % X, None),
    'cosh': ('UF(cosh, %s)' % X, 'UF(sinh, %s)' % X, None),
    'asinh': ('UF(asinh, %s)' % X, '(1 / UF(sqrt, %s * %s + 1))' % (X, X), None),
    'acosh': ('UF(acosh, %s)' % X, '(1 / UF(sqrt, %s * %s - 1))' % (X, X), X + ' > 1'),
}
for f, (val, df, req) in m1.items():
    fn('m_' + f, '%s Opm::DenseAd::%s<double, -1, 8u>' % (E, f), cE)
    w('requires: WF(x)' + (' && ' + req if req else ''))
    w('ensures len: RLEN(\\result) == LEN(x)')
    w('ensures val: RV(\\result) == ' + val)
    w('ensures d: IMPLIES(SLOT(x), RD(\\result) == %s * %s)' % (df, dX))
    w('loop 0 invariant chain: curVarIdx >= 0 && (unsigned long)curVarIdx + 1 <= LEN(x) && RLEN(result) == LEN(x) && RV(result) == %s && '
      'IMPLIES(SLOT(x) && ghost_d <= (unsigned long)curVarIdx, RD(result) == %s * %s)' % (val, df, dX))
    w('loop 0 assigns: curVarIdx, result')
    w('loop 0 decreases: (c_long)LEN(x) - curVarIdx')
fn('E_gt_c', 'bool ' + M + 'operator><double>', '(double) const')
w('requires: WF(self)')
w('ensures r: \\result == (VAL(self) > other)')
fn('m_abs', '%s Opm::DenseAd::abs<double, -1, 8u>' % E, cE)
w('requires: WF(x)')
w('ensures len: RLEN(\\result) == LEN(x)')
w('ensures val: RV(\\result) == ((VAL(x) > 0) ? VAL(x) : -VAL(x))')
w('ensures d: IMPLIES(SLOT(x), RD(\\result) == ((VAL(x) > 0) ? DER(x) : -DER(x)))')
sys.stdout.write('\n'.join(out) + '\n')
