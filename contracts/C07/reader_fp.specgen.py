# C07 (3b): the float and double instantiations of the unformatted array reader, derived mechanically from reader.spec
# (same contract; element type, element size and block size substituted).
import os, sys
src = open(os.path.join(os.path.dirname(os.path.abspath(__file__)), 'reader.spec')).read()
for suf, T, en, es, mb, ct in (('float', 'float', 'REAL', 4, 4000, 'realf_t'), ('double', 'double', 'DOUB', 8, 8000, 'real_t')):
    t = src
    t = t.replace('@unit reader', '@unit reader_' + suf)
    t = t.replace('~readBinaryArray<int, int>', '~readBinaryArray<%s, %s>' % (T, T))
    t = t.replace('@function read_int', '@function read_' + suf)
    t = t.replace('eclArrType_INTE', 'eclArrType_' + en)
    t = t.replace('int g_val;', ct + ' g_val;')
    t = t.replace('OPQ_call_c_int(', 'OPQ_call_%s(' % ct)
    t = t.replace('\\result._0 == 4 && \\result._1 == 4000', '\\result._0 == %d && \\result._1 == %d' % (es, mb))
    t = t.replace('sizeOfElement == 4 && maxBlockSize == 4000', 'sizeOfElement == %d && maxBlockSize == %d' % (es, mb))
    t = t.replace('(v).size * 4', '(v).size * %d' % es)
    sys.stdout.write('@@@ reader_' + suf + '\n' + t + '\n')
