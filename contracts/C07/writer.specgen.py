# C07 (2): generated per element type from one template (int / float / double instantiations of
# EclOutput::writeBinaryArray<T>); the template text below is the contract.
import sys
TEMPLATE = r"""# C07 (2): the unformatted array writer emits the published record structure: sub-blocks of at most 1000 numeric
# elements, each framed by equal big-endian head and tail length words; every element of the input appears once, in
# order, byte-swapped; the number of bytes written equals the size arithmetic of unit `sizes` (minus the 24-byte header).
@unit writer
@tu opm/io/eclipse/EclOutput.cpp
@filter ::
@mode SA
@timeout 200
@enum Opm::EclIO::eclArrType
@typemap std::(__cxx11::)?basic_string<char.*> = c_opaque
@typemap std::string = c_opaque
@typemap std::basic_ofstream<.*> = c_opaque
@typemap std::ofstream = c_opaque
@opaque is_open
@trusted ofstream::write(p, n) appends the n bytes at p to the file (modelled by the ghost sink below); ofstream::is_open is a pure query
@notcovered formatted writer (decimal text), CHAR / C0nn writers, the 24-byte array header writer, file opening / flushing
@prelude
static unsigned long ghost_g;     /* arbitrary element index */
static struct { unsigned long bytes, blocks, elems, block_bytes; int state; int head; long g_val; _Bool g_seen; } ghost_sink;
int __CPROVER_uninterpreted_flip_int(int);
#define FLIP_INT(x) __CPROVER_uninterpreted_flip_int(x)
realf_t __CPROVER_uninterpreted_flip_float(realf_t);
real_t __CPROVER_uninterpreted_flip_double(real_t);
#define FLIP_FLOAT(x) __CPROVER_uninterpreted_flip_float(x)
#define FLIP_DOUBLE(x) __CPROVER_uninterpreted_flip_double(x)
#define MAXBLOCK 4000
/* the word written for a logical value: 0xffffffff (ECL) or 0x01000000 (IX) for true, 0 for false, as the int the code stores */
#define LOGI_WORD(x) ((x) ? (self->ix_standard ? (int)16777216u : (int)4294967295u) : (int)0u)
/* ofstream::write of one int (a length word): head when a block is expected, tail after the block's data */
#define SINK_WRITE_SCALAR(x, n) do { __CPROVER_assert(verif_thrown || (n) == 4, "length word is 4 bytes"); \
    if (ghost_sink.state == 0) { ghost_sink.head = (x); ghost_sink.state = 1; } \
    else { __CPROVER_assert(verif_thrown || ghost_sink.state == 2, "tail word follows the data of the block"); \
           __CPROVER_assert(verif_thrown || (x) == ghost_sink.head, "tail length word equals head length word"); \
           __CPROVER_assert(verif_thrown || ghost_sink.head == FLIP_INT((int)ghost_sink.block_bytes), "length word is the big-endian byte count of the block"); \
           __CPROVER_assert(verif_thrown || (ghost_sink.block_bytes <= MAXBLOCK && ghost_sink.block_bytes > 0), "block holds between 1 and 1000 numeric elements"); \
           ghost_sink.state = 0; ghost_sink.blocks++; } \
    ghost_sink.bytes += 4; } while (0)
/* ofstream::write of the n bytes of a vector of es-byte elements: the data of one block */
#define SINK_WRITE_VEC(v, n, es) do { __CPROVER_assert(verif_thrown || ghost_sink.state == 1, "data follows a head length word"); \
    __CPROVER_assert(verif_thrown || (n) == (v).size * (es), "all elements of the staging vector are written"); \
    if (ghost_g >= ghost_sink.elems && ghost_g - ghost_sink.elems < (v).size) { ghost_sink.g_val = (long)(v).data[ghost_g - ghost_sink.elems]; ghost_sink.g_seen = 1; } \
    ghost_sink.elems += (v).size; ghost_sink.block_bytes = (n); ghost_sink.bytes += (n); ghost_sink.state = 2; } while (0)
#define CEILDIV(a, b) (((a) + (b) - 1) / (b))
static unsigned long ghost_e0, ghost_b0, ghost_k0;   /* sink counters at entry */
#define DONE ((unsigned long)offset)
/* number of blocks written by this call, and the division-free form of k == ceil(n / 1000) (equivalence: lemma ceil_form) */
#define KB (ghost_sink.blocks - ghost_k0)
#define BLOCKS_FOR(n, k) (((n) == 0 && (k) == 0) || ((k) >= 1 && 1000 * ((k) - 1) < (n) && (n) <= 1000 * (k)))
#define GJ (ghost_g - ghost_sink.elems)

@function flipEndianInt extern
qual: Opm::EclIO::flipEndianInt
ensures swapped: \result == FLIP_INT(num)

@function flipEndianFloat extern
qual: Opm::EclIO::flipEndianFloat
ensures swapped: \result == FLIP_FLOAT(num)

@function flipEndianDouble extern
qual: Opm::EclIO::flipEndianDouble
ensures swapped: \result == FLIP_DOUBLE(num)

@function block_size_data_binary extern
qual: Opm::EclIO::block_size_data_binary
ensures published: IMPLIES(arrType == eclArrType_INTE, !\thrown && \result._0 == 4 && \result._1 == 4000)
ensures may_throw: \thrown || !\thrown

@function write_int split
qual: ~EclOutput::writeBinaryArray<int>$
requires: ghost_sink.state == 0 && data->size <= 500000000
requires: ghost_sink.elems <= 1000000000000ul && ghost_sink.bytes <= 1000000000000ul && ghost_sink.blocks <= 1000000000000ul
init: ghost_e0 = ghost_sink.elems
init: ghost_b0 = ghost_sink.bytes
init: ghost_k0 = ghost_sink.blocks
ensures one_record_structure: \thrown || ghost_sink.state == 0
ensures every_element_once: \thrown || ghost_sink.elems == \old(ghost_sink.elems) + data->size
ensures bytes_match_size_arithmetic: \thrown || ghost_sink.bytes == \old(ghost_sink.bytes) + data->size * 4 + 8 * KB
ensures block_count_is_ceil_n_over_1000: \thrown || BLOCKS_FOR(data->size, KB)
ensures element_in_order_byte_swapped: \thrown || IMPLIES(ghost_g >= \old(ghost_sink.elems) && ghost_g - \old(ghost_sink.elems) < data->size, ghost_sink.g_seen && ghost_sink.g_val == FLIP_INT(data->data[ghost_g - \old(ghost_sink.elems)]))
ensures throws_only_if_closed: IMPLIES(\thrown, !OPQ_opaque_is_open(OPQ_ID(self->ofileH)))
assigns: ghost_sink
loop 0 invariant constants: arrType == eclArrType_INTE && sizeOfElement == 4 && maxBlockSize == 4000 && maxNumberOfElements == 1000 && size == (c_long)data->size
loop 0 invariant between_blocks: ghost_sink.state == 0
loop 0 invariant progress: rest >= 0 && offset >= 0 && offset <= size && rest <= size * 4 && rest + offset * 4 == size * 4 && KB <= 1000000 && IMPLIES(rest > 0, DONE == 1000 * KB) && IMPLIES(rest == 0, BLOCKS_FOR(DONE, KB))
loop 0 invariant counters: ghost_sink.elems == ghost_e0 + DONE && ghost_sink.blocks >= ghost_k0 && ghost_sink.bytes == ghost_b0 + DONE * 4 + 8 * KB
loop 0 invariant elements_so_far: IMPLIES(ghost_g >= ghost_e0 && ghost_g - ghost_e0 < DONE, ghost_sink.g_seen && ghost_sink.g_val == FLIP_INT(data->data[ghost_g - ghost_e0]))
loop 0 assigns: rest, num, dhead, offset, ghost_sink
loop 0 decreases: rest
ghost loop 0 post: VERIF_LEMMA(DONE == data->size, "write/all elements consumed when the block loop ends");
loop 1 invariant staged: m >= 0 && m <= num && flipped_data.size == (unsigned long)num && IMPLIES(ghost_g >= ghost_sink.elems && GJ < (unsigned long)m, flipped_data.data[GJ] == FLIP_INT(data->data[GJ + DONE]))
loop 1 assigns: m, flipped_data
loop 1 decreases: num - m
"""
TYPES = [
  # unit suffix, C++ T, enum, element bytes, block bytes, flip macro, ghost value type, index of the live staging loop, staging variable
  ('int',    'int',    'INTE', 4, 4000, 'FLIP_INT',    'long',    1, 'flipped_data', 'm'),
  ('float',  'float',  'REAL', 4, 4000, 'FLIP_FLOAT',  'realf_t', 2, 'flipped_data_2', 'm_2'),
  ('double', 'double', 'DOUB', 8, 8000, 'FLIP_DOUBLE', 'real_t',  3, 'flipped_data_3', 'm_3'),
  # LOGI: every element becomes the true / false word of the file flavour (ECL or IX); no byte swap
  ('bool',   'bool',   'LOGI', 4, 4000, 'LOGI_WORD',   'long',    4, 'logi_data', 'm_4'),
]
for suf, T, en, es, mb, flip, gty, lk, stage, mv in TYPES:
    t = TEMPLATE
    t = t.replace('@unit writer', '@unit writer_' + suf)
    t = t.replace('writeBinaryArray<int>$', 'writeBinaryArray<%s>$' % T)
    t = t.replace('@function write_int', '@function write_' + suf)
    t = t.replace('eclArrType_INTE', 'eclArrType_' + en)
    t = t.replace('long g_val;', gty + ' g_val;').replace('(long)(v).data', '(' + gty + ')(v).data')
    t = t.replace('#define MAXBLOCK 4000', '#define MAXBLOCK %d' % mb)
    t = t.replace('\\result._0 == 4 && \\result._1 == 4000', '\\result._0 == %d && \\result._1 == %d' % (es, mb))
    t = t.replace('sizeOfElement == 4 && maxBlockSize == 4000', 'sizeOfElement == %d && maxBlockSize == %d' % (es, mb))
    t = t.replace('FLIP_INT(data->data', flip + '(data->data')
    for ln in [l for l in t.split('\n') if l.startswith('loop 1 ')]:
        t = t.replace(ln, ln.replace('(unsigned long)m,', '(unsigned long)%s,' % mv).replace('m >= 0 && m <= num', '%s >= 0 && %s <= num' % (mv, mv)).replace('assigns: m,', 'assigns: %s,' % mv).replace('num - m', 'num - ' + mv))
    t = t.replace('loop 1 ', 'loop %d ' % lk).replace('flipped_data.', stage + '.').replace(', flipped_data\n', ', ' + stage + '\n')
    t = t.replace(' * 4', ' * %d' % es)
    if suf == 'bool':
        t = t.replace('@function write_bool split', '@function write_bool split timeout=90')
    sys.stdout.write('@@@ writer_' + suf + '\n' + t + '\n')
