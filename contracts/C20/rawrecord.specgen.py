# GENERATED header from contracts/C20/text.spec (shared ghost text model) + the contract of the record tokeniser
import os, re, sys
src = open(os.path.join(os.path.dirname(os.path.abspath(__file__)), 'text.spec')).read()
head = src[:src.index('\n@function ')]
head = head.replace('@unit text', '@unit rawrecord').replace('@tu opm/input/eclipse/Parser/Parser.cpp', '@tu opm/input/eclipse/Parser/raw/RawRecord.cpp')
head = re.sub(r'(?m)^# C20 \(2\).*\n(#.*\n)*', '', head, count=1)
NEW_HEAD = '# C20 (4) / C01: the record tokeniser RawRecord.cpp:splitSingleRecordString on ARBITRARY bytes: every token handed on is\n# a sub-range of the record it was cut from, the standard algorithms are called with valid ranges, iterators never leave\n# [begin, end] of the record, and the loop terminates -- also for a record whose last quoted token has no closing quote.\n# Same ghost text model as unit text (generated from contracts/C20/text.spec: header shared mechanically).\n'
EXTRA = '@typemap std::deque<std::basic_string_view<char.*> > = struct ghost_toks\n@typemap std::deque<std::string_view> = struct ghost_toks\n@struct ghost_toks c_ulong n;\n@lib ~^push_back$ = TOK_PUSH\n@lib ctor:struct ghost_toks:0 = TOKS_EMPTY\n'
PRE = '/* a token is handed on: it must lie inside the record it was cut from, and be non-empty */\n#define TOK_PUSH(d, t) do { struct ghost_sv verif_t = (t); __CPROVER_assert(verif_thrown || SUBVIEW(verif_t, *record), "token handed on is a sub-range of the record"); __CPROVER_assert(verif_thrown || verif_t.size > 0, "token is not empty"); (d).n++; } while (0)\n#define REC_END (record->off + record->size)\n#define TOKS_EMPTY() ({ struct ghost_toks verif_d; verif_d.n = 0; verif_d; })\n'
BODY = '\n@function is_separator_call\nqual: ~RawConsts::is_separator::operator\\(\\)$\n\n@function splitSingleRecordString split\nqual: ~splitSingleRecordString$\ninline: is_separator_call\nrequires: INSIDE(*record)\nensures nothrow: !\\thrown\nloop 0 invariant inside_the_record: record->off <= current && current <= REC_END\nloop 0 assigns: current, dst\nloop 0 decreases: REC_END - current\n'
head = NEW_HEAD + head.replace('@prelude\n', EXTRA + '@prelude\n' + PRE, 1)
sys.stdout.write('@@@ rawrecord\n' + head + BODY)
