# C20 (3): opening any byte string as an Eclipse result file -- the unformatted array reader on ARBITRARY content: every
# vector access in bounds, exactly the requested number of elements or an exception, never data after a short read.
# Same contract as contracts/C07/reader.spec (derived mechanically).
import os, sys
src = open(os.path.join(os.path.dirname(os.path.abspath(__file__)), '..', 'C07', 'reader.spec')).read()
sys.stdout.write('@@@ reader\n' + src + '\n')
